"""E1 (second half) - call resolution, call graph, role queries.

Calls are resolved on the syntax tree: module functions and constructors by scope, ``self.m``
through the MRO, ``x.m`` by class-hierarchy analysis over the repository's classes, bound-method
values passed around (``self.findall`` given to ``register_function``) are followed.
"""
import ast

from .model import AnalysisError, FuncInfo, own_nodes, own_nodes_ordered, is_name, is_self_attr, norm

# method names that, on an unknown receiver, are far more likely to belong to a builtin container
# or library object than to a repository class; CHA skips them unless a repo class defines them
# *and* the receiver is ``self``.
_LIB_METHODS = {'append', 'extend', 'insert', 'pop', 'remove', 'clear', 'sort', 'reverse', 'copy', 'get',
                'items', 'keys', 'values', 'setdefault', 'update', 'join', 'split', 'splitlines', 'format',
                'write', 'read', 'close', 'encode', 'decode', 'replace', 'strip', 'startswith', 'endswith',
                'index', 'count', 'add', 'discard', 'getText', 'send', 'throw', 'lower', 'upper'}


class CallGraph:
    def __init__(self, repo, modules=None):
        self.repo = repo
        self.funcs = list(repo.all_functions(modules))
        self.calls = {}       # FuncInfo -> list of (call node, [callee FuncInfo], kind)
        self.refs = {}        # FuncInfo -> list of (node, FuncInfo) function values mentioned
        self.callers = {}
        for f in self.funcs:
            self._scan(f)

    # -- resolution -----------------------------------------------------------------------
    def resolve_callable(self, f, expr):
        """FuncInfos that evaluating ``expr`` (in function f) may denote; [] if unknown/external."""
        repo = self.repo
        if isinstance(expr, ast.Name):
            r = repo.resolve_name(f, expr.id)
            if r is None:
                return []
            if r[0] in ('func', 'nested'):
                return [r[1]]
            if r[0] == 'class':
                init = repo.lookup_method(r[1], '__init__')
                return [init] if init else []
            return []
        if isinstance(expr, ast.Attribute):
            if is_name(expr.value, 'self') and f.cls is not None:
                m = repo.lookup_method(f.cls, expr.attr)
                out = [m] if m else []
                for sub in repo.subclasses(f.cls, strict=True):
                    if expr.attr in sub.methods and sub.methods[expr.attr] not in out:
                        out.append(sub.methods[expr.attr])
                # the receiver is an instance of a class that is actually constructed: an implementation that no
                # constructed class inherits (the abstract default of a base class) is not a callee
                live = [c for c in repo.subclasses(f.cls) if c in repo.instantiated()]
                if live and len(out) > 1:
                    reach = []
                    for c in live:
                        mm = repo.lookup_method(c, expr.attr)
                        if mm is not None and mm not in reach:
                            reach.append(mm)
                    if reach:
                        out = [x for x in out if x in reach]
                return out
            # Class.method(self, ...) style
            if isinstance(expr.value, ast.Name):
                r = repo.resolve_name(f, expr.value.id)
                if r and r[0] == 'class':
                    m = repo.lookup_method(r[1], expr.attr)
                    return [m] if m else []
                if r and r[0] == 'ext':
                    return []
            if expr.attr in _LIB_METHODS:
                return []
            return [c.methods[expr.attr] for c in repo.classes_defining(expr.attr)]
        return []

    def constructed_class(self, f, call):
        if isinstance(call.func, ast.Name):
            r = self.repo.resolve_name(f, call.func.id)
            if r and r[0] == 'class':
                return r[1]
        return None

    def _scan(self, f):
        calls, refs = [], []
        for n in own_nodes_ordered(f.node):
            if isinstance(n, ast.Call):
                callees = self.resolve_callable(f, n.func)
                calls.append((n, callees))
                for c in callees:
                    self.callers.setdefault(c, []).append((f, n))
                for a in list(n.args) + [k.value for k in n.keywords]:
                    a = a.value if isinstance(a, ast.Starred) else a
                    if isinstance(a, (ast.Name, ast.Attribute)):
                        for c in self.resolve_callable(f, a):
                            if isinstance(a, ast.Name):
                                r = self.repo.resolve_name(f, a.id)
                                if not r or r[0] not in ('func', 'nested'):
                                    continue
                            refs.append((a, c))
        self.calls[f] = calls
        self.refs[f] = refs

    # -- queries --------------------------------------------------------------------------
    def callees(self, f, with_refs=False):
        out = []
        for n, cs in self.calls.get(f, ()):
            for c in cs:
                if c not in out:
                    out.append(c)
        if with_refs:
            for n, c in self.refs.get(f, ()):
                if c not in out:
                    out.append(c)
        for nf in f.nested.values():
            pass
        return out

    def reachable(self, roots, with_refs=True, include_nested=True):
        seen = []
        stack = list(roots)
        while stack:
            f = stack.pop()
            if f in seen:
                continue
            seen.append(f)
            stack.extend(self.callees(f, with_refs))
            if include_nested:
                stack.extend(f.nested.values())
        return seen

    def call_sites_of(self, target):
        return list(self.callers.get(target, ()))


def arg_for_param(call, callee, pname):
    """the argument expression a call passes for parameter ``pname`` of ``callee`` (or None)"""
    params = callee.params
    if callee.is_method or (callee.cls is not None and callee.name == '__init__'):
        params = params[1:]
    for k in call.keywords:
        if k.arg == pname:
            return k.value
    if pname in params:
        i = params.index(pname)
        if i < len(call.args) and not any(isinstance(a, ast.Starred) for a in call.args[:i + 1]):
            return call.args[i]
    return None


def builtin_table(repo, cg):
    """Evaluate the ``register_function(name, f, arity)`` calls of the engine's set-up code.

    -> list of dicts {name, arity (int | None=inferred | 'n'), func (FuncInfo|None), node, expr}
    """
    yp = repo.cls('engine', 'YP')
    reg = repo.lookup_method(yp, 'register_function')
    if reg is None:
        raise AnalysisError('anchor vanished: YP.register_function')
    init = repo.lookup_method(yp, '__init__')
    if init is None:
        raise AnalysisError('anchor vanished: YP.__init__')
    from .symex import SymEx, SelfV, Const, PathState, Sym
    out = []

    class Collect(SymEx):
        def apply(self, e, f, args, kw, st, func):
            if isinstance(f, tuple) and f[0] == 'bound' and f[1] is reg:
                st.effects.append(('register', e, args, kw))
                return [(st, Const(None))]
            return SymEx.apply(self, e, f, args, kw, st, func)
    direct = [f for f in cg.reachable([init], with_refs=False, include_nested=False) if f.cls is yp and f is not reg and
              any(reg in callees and is_self_attr(n.func, 'register_function') for n, callees in cg.calls.get(f, ()))]
    helpers = set()
    if not direct:
        # the registrations sit in module-level helpers that are handed the engine: the engine methods that reach them
        # (from the constructor) are evaluated with those helpers pasted in
        reaching = {g for g in repo.all_functions(('engine',)) if g is not reg and reg in cg.reachable([g], with_refs=False, include_nested=False)}
        helpers = {g for g in reaching if g.cls is None}
        tops = [f for f in cg.callees(init, with_refs=False) if f in reaching and f.cls is yp]
        direct = tops or ([init] if init in reaching else [])
    for f in direct:
        # the set-up function is evaluated by the checker: its register_function calls with their argument values
        sx = Collect(repo, inline=lambda g: g in helpers, opaque=lambda n: False, max_depth=4)
        sx.max_steps = 20000
        try:
            paths = sx.run(f, [Sym(p) for p in f.params[1:]], PathState())
        except AnalysisError as e:
            raise AnalysisError('cannot evaluate the builtin registrations of %s: %s' % (f.qname, e))
        if len(paths) != 1:
            raise AnalysisError('the builtin registrations of %s depend on run-time values (%d paths)' % (f.qname, len(paths)))
        for eff in paths[0][0].effects:
            if not (isinstance(eff, tuple) and eff and eff[0] == 'register'):
                continue
            _, n, args, kw = eff
            ps = reg.params[1:]
            vals = dict(zip(ps, args))
            vals.update(kw)
            name, fn, ar = vals.get('name'), vals.get('func'), vals.get('arity')
            if not (isinstance(name, Const) and isinstance(name.v, str)):
                raise AnalysisError('builtin registered under a non-constant name at %s' % f.loc(n))
            arity = None
            if ar is not None:
                if not (isinstance(ar, Const) and (ar.v is None or isinstance(ar.v, int))):
                    raise AnalysisError('builtin registered with a non-constant arity at %s' % f.loc(n))
                arity = ar.v
            func = fn[1] if isinstance(fn, tuple) and fn and fn[0] in ('bound', 'func') else None
            if arity is None and func is not None:
                fps = func.params[1:] if func.is_method else func.params
                arity = len(fps) if not func.node.args.vararg else None
            key = '%s_n' % name.v if (isinstance(arity, int) and arity < 0) else '%s_%s' % (name.v, arity)
            out.append(dict(name=name.v, arity=arity, key=key, func=func, node=n, expr=func.name if func is not None else repr(fn), where=f.loc(n)))
    return out
