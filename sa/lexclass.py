"""E7 (second half) - a small regular-language kit.

Regular expressions (Python ``re`` syntax, parsed with ``re._parser``) are compiled to DFAs over
a finite alphabet: the 128 ASCII characters plus one symbol OTHER standing for every non-ASCII
character.  Inclusion, intersection-emptiness and shortest witnesses are decided exactly.
"""
import re
import re._parser as sre_parse
import re._constants as sre_c
from collections import deque

OTHER = 128                      # every non-ASCII character
ALPHABET = list(range(129))
_OTHER_SAMPLE = 'é'


def _sym(ch):
    o = ord(ch)
    return o if o < 128 else OTHER


def _show(sym):
    return _OTHER_SAMPLE if sym == OTHER else chr(sym)


class NFA:
    def __init__(self):
        self.n = 0
        self.eps = {}
        self.trans = {}       # state -> list of (frozenset(symbols), target)

    def new(self):
        self.n += 1
        return self.n - 1

    def add_eps(self, a, b):
        self.eps.setdefault(a, []).append(b)

    def add(self, a, syms, b):
        self.trans.setdefault(a, []).append((frozenset(syms), b))


def _class_syms(items, negate=False):
    syms = set()
    for op, av in items:
        if op is sre_c.LITERAL:
            syms.add(av if av < 128 else OTHER)
        elif op is sre_c.RANGE:
            lo, hi = av
            for c in range(lo, min(hi, 127) + 1):
                syms.add(c)
            if hi >= 128:
                syms.add(OTHER)
        elif op is sre_c.CATEGORY:
            syms |= _category(av)
        elif op is sre_c.NEGATE:
            negate = True
        else:
            raise ValueError('unsupported class item %s' % (op,))
    if negate:
        syms = set(ALPHABET) - syms
    return syms


def _category(av):
    name = str(av)
    d = set(range(48, 58))
    w = d | set(range(65, 91)) | set(range(97, 123)) | {95, OTHER}
    s = {9, 10, 11, 12, 13, 32}
    if name.endswith('CATEGORY_DIGIT'):
        return d | {OTHER}           # \d matches non-ASCII digits too
    if name.endswith('CATEGORY_NOT_DIGIT'):
        return set(ALPHABET) - d
    if name.endswith('CATEGORY_WORD'):
        return w
    if name.endswith('CATEGORY_NOT_WORD'):
        return (set(ALPHABET) - w) | {OTHER}
    if name.endswith('CATEGORY_SPACE'):
        return s | {OTHER}
    if name.endswith('CATEGORY_NOT_SPACE'):
        return set(ALPHABET) - s
    raise ValueError('unsupported category %s' % name)


def _build(nfa, items, start):
    """Thompson construction for a sequence of sre items; returns the end state"""
    cur = start
    for op, av in items:
        nxt = nfa.new()
        if op is sre_c.LITERAL:
            nfa.add(cur, {av if av < 128 else OTHER}, nxt)
        elif op is sre_c.NOT_LITERAL:
            nfa.add(cur, set(ALPHABET) - {av if av < 128 else OTHER}, nxt)
        elif op is sre_c.ANY:
            nfa.add(cur, set(ALPHABET) - {10}, nxt)
        elif op is sre_c.IN:
            nfa.add(cur, _class_syms(av), nxt)
        elif op is sre_c.BRANCH:
            for alt in av[1]:
                s = nfa.new()
                nfa.add_eps(cur, s)
                e = _build(nfa, alt, s)
                nfa.add_eps(e, nxt)
        elif op is sre_c.SUBPATTERN:
            e = _build(nfa, av[3], cur)
            nfa.add_eps(e, nxt)
        elif op in (sre_c.MAX_REPEAT, sre_c.MIN_REPEAT):
            lo, hi, sub = av
            c = cur
            for _ in range(lo):
                c = _build(nfa, sub, c)
            if hi is sre_c.MAXREPEAT:
                loop = nfa.new()
                nfa.add_eps(c, loop)
                e = _build(nfa, sub, loop)
                nfa.add_eps(e, loop)
                nfa.add_eps(loop, nxt)
            else:
                nfa.add_eps(c, nxt)
                for _ in range(hi - lo):
                    c = _build(nfa, sub, c)
                    nfa.add_eps(c, nxt)
        elif op is sre_c.AT:
            nfa.add_eps(cur, nxt)
        else:
            raise ValueError('unsupported regex construct %s' % (op,))
        cur = nxt
    return cur


class DFA:
    def __init__(self, start, trans, accept, nstates):
        self.start = start
        self.trans = trans          # list of dict sym -> state (total)
        self.accept = accept        # set
        self.n = nstates

    # -- constructors ---------------------------------------------------------------------
    @staticmethod
    def from_regex(rx):
        nfa = NFA()
        s = nfa.new()
        try:
            parsed = sre_parse.parse(rx)
        except re.error as e:
            raise ValueError('bad regex %r: %s' % (rx, e))
        e = _build(nfa, list(parsed), s)
        return DFA._determinise(nfa, s, {e})

    @staticmethod
    def literal(text):
        return DFA.from_regex(re.escape(text))

    @staticmethod
    def anything():
        return DFA.from_regex('(?s:.*)' if False else '[\\s\\S]*')

    @staticmethod
    def _determinise(nfa, s, accepts):
        def closure(states):
            st = set(states)
            stack = list(states)
            while stack:
                x = stack.pop()
                for y in nfa.eps.get(x, ()):
                    if y not in st:
                        st.add(y)
                        stack.append(y)
            return frozenset(st)
        start = closure([s])
        ids = {start: 0}
        trans = [dict()]
        accept = set()
        dq = deque([start])
        while dq:
            cur = dq.popleft()
            i = ids[cur]
            if cur & accepts:
                accept.add(i)
            move = {}
            for x in cur:
                for syms, t in nfa.trans.get(x, ()):
                    for a in syms:
                        move.setdefault(a, set()).add(t)
            for a in ALPHABET:
                tgt = closure(move.get(a, ()))
                if tgt not in ids:
                    ids[tgt] = len(trans)
                    trans.append(dict())
                    dq.append(tgt)
                trans[i][a] = ids[tgt]
        return DFA(0, trans, accept, len(trans))

    # -- operations -----------------------------------------------------------------------
    def complement(self):
        return DFA(self.start, self.trans, set(range(self.n)) - self.accept, self.n)

    def product(self, other, mode):
        ids = {(self.start, other.start): 0}
        trans = [dict()]
        accept = set()
        dq = deque([(self.start, other.start)])
        while dq:
            a, b = dq.popleft()
            i = ids[(a, b)]
            ia, ib = a in self.accept, b in other.accept
            if (mode == 'and' and ia and ib) or (mode == 'or' and (ia or ib)):
                accept.add(i)
            for sym in ALPHABET:
                t = (self.trans[a][sym], other.trans[b][sym])
                if t not in ids:
                    ids[t] = len(trans)
                    trans.append(dict())
                    dq.append(t)
                trans[i][sym] = ids[t]
        return DFA(0, trans, accept, len(trans))

    def intersect(self, other):
        return self.product(other, 'and')

    def union(self, other):
        return self.product(other, 'or')

    def concat(self, other):
        # via NFA-less construction: simulate sets of (phase) states
        start = (self.start, frozenset([other.start]) if self.start in self.accept else frozenset())
        ids = {start: 0}
        trans = [dict()]
        accept = set()
        dq = deque([start])
        while dq:
            cur = dq.popleft()
            a, bs = cur
            i = ids[cur]
            if bs & other.accept:
                accept.add(i)
            for sym in ALPHABET:
                na = self.trans[a][sym] if a is not None else None
                nbs = {other.trans[b][sym] for b in bs}
                if na is not None and na in self.accept:
                    nbs.add(other.start)
                t = (na, frozenset(nbs))
                if t not in ids:
                    ids[t] = len(trans)
                    trans.append(dict())
                    dq.append(t)
                trans[i][sym] = ids[t]
        return DFA(0, trans, accept, len(trans))

    def witness(self):
        """a shortest accepted word, or None if the language is empty"""
        prev = {self.start: None}
        dq = deque([self.start])
        while dq:
            s = dq.popleft()
            if s in self.accept:
                out = []
                while prev[s] is not None:
                    p, sym = prev[s]
                    out.append(_show(sym))
                    s = p
                return ''.join(reversed(out))
            for sym in ALPHABET:
                t = self.trans[s][sym]
                if t not in prev:
                    prev[t] = (s, sym)
                    dq.append(t)
        return None

    def is_empty(self):
        return self.witness() is None

    def subset_of(self, other):
        """-> None if L(self) is a subset of L(other), else a witness in the difference"""
        return self.intersect(other.complement()).witness()

    def accepts(self, text):
        s = self.start
        for ch in text:
            s = self.trans[s][_sym(ch)]
        return s in self.accept


_CACHE = {}


def dfa(rx):
    if rx not in _CACHE:
        _CACHE[rx] = DFA.from_regex(rx)
    return _CACHE[rx]


# ---------------------------------------------------------------------------------------------
# target classes of the Python lexer (ASCII; Python NFKC-normalises non-ASCII identifiers, the
# engine's keys do not, so only ASCII identifiers are acceptable)

PY_IDENT = r'[A-Za-z_][A-Za-z0-9_]*'
PY_DEC_INT = r'0+|[1-9][0-9]*'
PY_KEYWORDS = ['False', 'None', 'True', 'and', 'as', 'assert', 'async', 'await', 'break', 'class', 'continue', 'def',
               'del', 'elif', 'else', 'except', 'finally', 'for', 'from', 'global', 'if', 'import', 'in', 'is', 'lambda',
               'nonlocal', 'not', 'or', 'pass', 'raise', 'return', 'try', 'while', 'with', 'yield', '__debug__']
LINEBREAK = r'[\s\S]*[\n\r\x0b\x0c\x1c\x1d\x1e\x85][\s\S]*'      # what str.splitlines / the tokenizer may treat as a break


def words(ws):
    return '|'.join(re.escape(w) for w in ws) if ws else r'(?!)x'


def regex_of(lex):
    """abstract string value -> regex (see sa.flow for the value shapes)"""
    k = lex[0]
    if k == 'lit':
        return re.escape(lex[1])
    if k == 're':
        return '(?:%s)' % lex[1]
    if k == 'gen':
        return re.escape(lex[1]) + '[0-9]+'
    if k == 'intstr':
        # integers that become text come from counters, len() and range(): non-negative
        return '(?:0|[1-9][0-9]*)'
    if k == 'any':
        return r'[\s\S]*'
    if k == 'cat':
        return ''.join('(?:%s)' % regex_of(p) for p in lex[1])
    if k == 'rep':
        return '(?:%s)*' % regex_of(lex[1])
    if k == 'alt':
        return '|'.join('(?:%s)' % regex_of(p) for p in lex[1])
    raise ValueError('no regex for %r' % (lex,))


def dfa_of(lex, minus=()):
    d = dfa(regex_of(lex))
    if minus:
        d = d.intersect(dfa(words(list(minus))).complement())
    return d
