"""Static analysers for timhemel/yldprolog (see /verif/DESIGN.md).

Nothing in this package imports or executes code of the repository under analysis: every
module is read as text and parsed with ``ast``.
"""
