"""Static analysers for timhemel/yldprolog (see /verif/DESIGN.md).

Nothing in this package imports or executes code of the repository under analysis: every
module is read as text and parsed with ``ast``.
"""
import sys as _sys

# the evaluator and the inliner are recursive over syntax trees: deep but finite
if _sys.getrecursionlimit() < 12000:
    _sys.setrecursionlimit(12000)
