"""E3 rules: write effects, ownership, allocation freshness (C04, C13, C15, C16, C18.N3)."""
import ast

from .model import (AnalysisError, own_nodes, own_nodes_ordered, is_name, is_self_attr, norm, parents, local_names,
                    declared_globals, GENERATED_MODULES)
from .eng import EngineModel, is_deref_call, deref_arg, narrowed_class
from .callgraph import arg_for_param

_MUTATORS = ('append', 'insert', 'extend', 'remove', 'pop', 'sort', 'clear', 'reverse', 'update', 'setdefault', 'add',
             'discard', 'popitem', '__setitem__', '__delitem__')


def is_mutable_value(e):
    if isinstance(e, (ast.Dict, ast.List, ast.Set, ast.ListComp, ast.DictComp, ast.SetComp)):
        return True
    if isinstance(e, ast.Call) and isinstance(e.func, ast.Name) and e.func.id in ('dict', 'list', 'set', 'defaultdict', 'OrderedDict', 'deque', 'bytearray', 'Counter'):
        return True
    if isinstance(e, ast.Call) and isinstance(e.func, ast.Attribute) and e.func.attr in ('defaultdict', 'OrderedDict', 'deque', 'Counter', 'WeakSet', 'WeakValueDictionary'):
        return True
    return False


# ---------------------------------------------------------------------------------------------
# C04


def rule_no_module_state(em, rep, rid, modules=None):
    rep.rule(rid, 'no function writes a module global, an attribute of an imported module or a class attribute; no module-level '
                  'mutable object is mutated by, or handed to an instance from, a function')
    n = 0
    for m in em.repo.modules.values():
        if m.name in GENERATED_MODULES or (modules and m.name not in modules):
            continue
        mutable_globals = {k for k, v in m.assigns.items() if is_mutable_value(v) and not (k.startswith('__') and k.endswith('__'))}
        for f in m.all_funcs:
            n += 1
            g = declared_globals(f)
            bad = []
            for x in own_nodes_ordered(f.node):
                if isinstance(x, ast.Name) and isinstance(x.ctx, (ast.Store, ast.Del)) and x.id in g:
                    bad.append((x, 'assigns module global %s' % x.id))
                if isinstance(x, ast.Attribute) and isinstance(x.ctx, (ast.Store, ast.Del)):
                    base = x.value
                    if isinstance(base, ast.Name) and base.id not in local_names(f):
                        r = em.repo.resolve_name(f, base.id)
                        if r and r[0] == 'class':
                            bad.append((x, 'assigns class attribute %s' % norm(x)))
                        elif r and r[0] in ('ext', 'var'):
                            bad.append((x, 'assigns attribute of module-level object %s' % norm(x)))
                    if isinstance(base, ast.Attribute) and base.attr == '__class__':
                        bad.append((x, 'assigns class attribute through __class__'))
                    if isinstance(base, ast.Call) and is_name(base.func, 'type'):
                        bad.append((x, 'assigns class attribute through type(...)'))
                    if is_name(base, 'cls'):
                        bad.append((x, 'assigns class attribute through cls'))
                # mutation of module-level mutable objects
                tgt = None
                if isinstance(x, ast.Call) and isinstance(x.func, ast.Attribute) and x.func.attr in _MUTATORS:
                    tgt = x.func.value
                elif isinstance(x, ast.Subscript) and isinstance(x.ctx, (ast.Store, ast.Del)):
                    tgt = x.value
                elif isinstance(x, ast.AugAssign):
                    tgt = x.target
                if isinstance(tgt, ast.Name) and tgt.id in mutable_globals and tgt.id not in local_names(f):
                    bad.append((x, 'mutates module-level object %s' % tgt.id))
                if isinstance(tgt, ast.Attribute) and isinstance(tgt.value, ast.Name) and tgt.value.id not in local_names(f):
                    r = em.repo.resolve_name(f, tgt.value.id)
                    if r and r[0] == 'class' and tgt.attr in r[1].class_attrs:
                        bad.append((x, 'mutates class attribute %s' % norm(tgt)))
                # handing a module-level mutable to an instance
                if isinstance(x, ast.Assign) and isinstance(x.value, ast.Name) and x.value.id in mutable_globals \
                        and x.value.id not in local_names(f) and any(isinstance(t, ast.Attribute) for t in x.targets):
                    bad.append((x, 'stores module-level object %s into an instance' % x.value.id))
                if isinstance(x, ast.Call) and isinstance(x.func, ast.Name) and x.func.id == 'setattr' and x.args and \
                        isinstance(x.args[0], ast.Name) and x.args[0].id not in local_names(f) and x.args[0].id not in f.all_params and \
                        x.args[0].id != 'self':
                    bad.append((x, 'setattr on a module-level object'))
            for x, why in bad:
                rep.violation(rid, '%s:%s' % (f.qname, norm(x)), '%s: state shared by all engine/compiler instances in the process' % why, f.loc(x))
            if not bad:
                rep.ok(rid, f.qname, 'writes no module-level or class-level location', f.loc(), nontrivial=False)
    rep.minimum('functions scanned for module-level writes', n, 80)
    rep.ok(rid, 'modules', '%d functions scanned' % n, None)


def rule_no_shared_class_attrs(em, rep, rid):
    rep.rule(rid, 'class bodies bind no mutable object; module level binds no mutable object that a function reads into an '
                  'instance; no lru_cache/cache memoisation')
    n = 0
    for c in em.repo.all_classes():
        for k, v in c.class_attrs.items():
            n += 1
            key = '%s.%s' % (c.qname, k)
            if is_mutable_value(v):
                rep.violation(rid, key, 'class attribute %s is a mutable object shared by every instance of %s (and by every engine '
                              'in the process)' % (k, c.name), c.loc(v))
            else:
                rep.ok(rid, key, 'immutable class constant %s' % norm(v), c.loc(v))
    for f in em.repo.all_functions():
        for d in f.decorators:
            if any(w in d for w in ('lru_cache', 'functools.cache', 'cached_property')) or d == 'cache':
                rep.violation(rid, '%s:@%s' % (f.qname, d), 'memoisation shared across instances/calls', f.loc())
    rep.minimum('class attributes examined', n, 4)


def _field_aliases(f):
    """{local: field} for locals of a method that are assigned, only ever, from ``self.<field>``"""
    out, bad = {}, set()
    for x in own_nodes(f.node):
        if isinstance(x, ast.Assign):
            for t in x.targets:
                if isinstance(t, ast.Name):
                    if is_self_attr(x.value) and t.id not in out:
                        out[t.id] = x.value.attr
                    elif not (is_self_attr(x.value) and out.get(t.id) == x.value.attr):
                        bad.add(t.id)
                elif isinstance(t, (ast.Tuple, ast.List)):
                    bad |= {y.id for y in ast.walk(t) if isinstance(y, ast.Name)}
        elif isinstance(x, (ast.For, ast.comprehension)):
            bad |= {y.id for y in ast.walk(x.target) if isinstance(y, ast.Name)}
        elif isinstance(x, (ast.AugAssign, ast.NamedExpr)) and isinstance(x.target, ast.Name):
            bad.add(x.target.id)
    return {k: v for k, v in out.items() if k not in bad and k not in f.all_params}


def init_field_values(em, cls):
    """{field: [(func, assign node)]} for self.field = ... in __init__ and the self methods it calls"""
    init = em.repo.lookup_method(cls, '__init__')
    out = {}
    if init is None:
        return out
    seen = set()
    stack = [init]
    while stack:
        f = stack.pop()
        if f in seen:
            continue
        seen.add(f)
        for n in own_nodes_ordered(f.node):
            if isinstance(n, ast.Assign):
                for t in n.targets:
                    if is_self_attr(t):
                        out.setdefault(t.attr, []).append((f, n))
            if isinstance(n, ast.Call) and is_self_attr(n.func):
                m = em.repo.lookup_method(cls, n.func.attr)
                if m is not None:
                    stack.append(m)
    return out


def rule_fresh_per_instance(em, rep, rid):
    rep.rule(rid, 'every field of the engine that is mutated anywhere is bound in __init__ (or a helper it calls) to a fresh '
                  'value - literal, constructor call, value derived from self - never to a parameter default, a module-level '
                  'object or a class attribute')
    yp = em.YP
    fields = init_field_values(em, yp)
    init = em.repo.lookup_method(yp, '__init__')
    mutated = {}
    for f in em.repo.all_functions(('engine',)):
        if f.cls is not yp:
            continue
        al = _field_aliases(f)
        for x in own_nodes_ordered(f.node):
            if isinstance(x, ast.Subscript) and isinstance(x.ctx, (ast.Store, ast.Del)) and is_self_attr(x.value):
                mutated.setdefault(x.value.attr, x)
            if isinstance(x, ast.Call) and isinstance(x.func, ast.Attribute) and is_self_attr(x.func.value) and x.func.attr in _MUTATORS:
                mutated.setdefault(x.func.value.attr, x)
            # ... through a local that stands for the field
            if isinstance(x, ast.Subscript) and isinstance(x.ctx, (ast.Store, ast.Del)) and is_name(x.value) and x.value.id in al:
                mutated.setdefault(al[x.value.id], x)
            if isinstance(x, ast.Call) and isinstance(x.func, ast.Attribute) and is_name(x.func.value) and x.func.value.id in al and x.func.attr in _MUTATORS:
                mutated.setdefault(al[x.func.value.id], x)
    rep.minimum('mutated engine fields', len(mutated), 3)
    defaults = {}
    if init is not None:
        a = init.node.args
        for p, d in zip([x.arg for x in a.args][len(a.args) - len(a.defaults):], a.defaults):
            defaults[p] = d
    for fld, site in sorted(mutated.items()):
        key = 'engine.YP.%s' % fld
        if fld not in fields:
            rep.violation(rid, key, 'field %s is modified at run time but never bound per instance in __init__: all engines share '
                          'the object found on the class' % fld, yp.loc(site))
            continue
        ok = True
        for f, n in fields[fld]:
            v = n.value
            if isinstance(v, ast.Name) and v.id in (init.all_params if init else []):
                if v.id in defaults and is_mutable_value(defaults[v.id]):
                    rep.violation(rid, key, 'bound to parameter %s whose default %s is one object shared by every engine created '
                                  'without that argument' % (v.id, norm(defaults[v.id])), f.loc(n))
                    ok = False
                continue
            if isinstance(v, ast.Name) and v.id not in local_names(f):
                r = em.repo.resolve_name(f, v.id)
                if r and r[0] == 'var' and is_mutable_value(r[2]):
                    rep.violation(rid, key, 'bound to the module-level object %s' % v.id, f.loc(n))
                    ok = False
                continue
            if isinstance(v, ast.Attribute) and isinstance(v.value, ast.Name) and v.value.id != 'self':
                r = em.repo.resolve_name(f, v.value.id)
                if r and r[0] == 'class':
                    rep.violation(rid, key, 'bound to the class attribute %s' % norm(v), f.loc(n))
                    ok = False
        if ok:
            rep.ok(rid, key, 'fresh per instance: %s' % norm(fields[fld][0][1].value)[:60], fields[fld][0][0].loc(fields[fld][0][1]))


def rule_defaults(em, rep, rid):
    rep.rule(rid, 'no mutable default argument is mutated, or stored in a field that is mutated')
    n = 0
    for f in em.repo.all_functions():
        a = f.node.args
        pairs = list(zip([x.arg for x in a.args][len(a.args) - len(a.defaults):], a.defaults)) + \
            [(k.arg, d) for k, d in zip(a.kwonlyargs, a.kw_defaults) if d is not None]
        for p, d in pairs:
            if not is_mutable_value(d):
                continue
            n += 1
            key = '%s:%s=%s' % (f.qname, p, norm(d))
            bad = None
            stored = []
            for x in own_nodes_ordered(f.node):
                if isinstance(x, ast.Call) and isinstance(x.func, ast.Attribute) and is_name(x.func.value, p) and x.func.attr in _MUTATORS:
                    bad = x
                if isinstance(x, ast.Subscript) and is_name(x.value, p) and isinstance(x.ctx, (ast.Store, ast.Del)):
                    bad = x
                if isinstance(x, ast.AugAssign) and is_name(x.target, p):
                    bad = x
                if isinstance(x, ast.Assign) and is_name(x.value, p):
                    stored += [t.attr for t in x.targets if is_self_attr(t)]
            if bad is None and stored and f.cls is not None:
                for g in em.repo.all_functions():
                    for x in own_nodes_ordered(g.node):
                        tgt = None
                        if isinstance(x, ast.Call) and isinstance(x.func, ast.Attribute) and x.func.attr in _MUTATORS:
                            tgt = x.func.value
                        elif isinstance(x, ast.Subscript) and isinstance(x.ctx, (ast.Store, ast.Del)):
                            tgt = x.value
                        if isinstance(tgt, ast.Attribute) and tgt.attr in stored:
                            bad = x
            if bad is not None:
                rep.violation(rid, key, 'the default object of parameter %s is shared by all calls and is modified (%s)' % (p, norm(bad)), f.loc(bad))
            else:
                rep.ok(rid, key, 'mutable default is only read', f.loc())
    rep.ok(rid, 'defaults', '%d mutable default(s) examined' % n, None, nontrivial=False)


def rule_script_globals(em, rep, rid):
    from .rules_query import context_literal_keys
    rep.rule(rid, 'everything in the context literal given to loaded scripts is a bound method or field of this instance, a '
                  'module-level function without write effects, or a constant; __builtins__ is an empty dict')
    keys = context_literal_keys(em)
    lit = em._context_literal
    for k, v in zip(lit.keys, lit.values):
        key = 'engine.YP.eval_context[%r]' % k.value
        if is_self_attr(v) or isinstance(v, ast.Constant):
            rep.ok(rid, key, norm(v), None)
        elif isinstance(v, ast.Name):
            r = em.repo.module_binding(em.engine, v.id)
            if r and r[0] == 'func':
                rep.ok(rid, key, 'module function %s' % v.id, None)
            else:
                rep.violation(rid, key, 'loaded scripts share the module-level object %s between engines' % v.id, em.engine.loc(v))
        elif isinstance(v, ast.Dict) and not v.keys:
            if k.value != '__builtins__':
                rep.violation(rid, key, 'a mutable object placed in the context', em.engine.loc(v))
            else:
                rep.ok(rid, key, 'empty builtins', None)
        else:
            rep.violation(rid, key, 'context entry %s is not a constant, function or member of this instance' % norm(v), em.engine.loc(v))
    bi = [v for k, v in zip(lit.keys, lit.values) if k.value == '__builtins__']
    if not bi or not (isinstance(bi[0], ast.Dict) and not bi[0].keys):
        rep.violation(rid, 'engine.YP.eval_context[__builtins__]', 'loaded code is not given an empty __builtins__: it can reach every Python builtin',
                      em.engine.loc(lit))


def atom_interning(em):
    """The engine's atom(name) evaluated by the checker on an empty table: -> dict(ok, why, field, func).  ok when the
    first call creates an Atom for the name and files it in a table of the engine, a second call with the same name
    returns that very object and leaves the table as it is, and another name gets another object."""
    from .symex import SymEx, PathState, DictV, Const, New
    yp = em.YP
    at = em.repo.lookup_method(yp, 'atom')
    if at is None:
        raise AnalysisError('anchor vanished: YP.atom')
    cached = getattr(em, '_atom_interning', None)
    if cached is not None:
        return cached
    res = dict(ok=False, why='', field=None, func=at)
    st = PathState()
    for k, vals in init_field_values(em, yp).items():
        v = vals[-1][1].value
        if (isinstance(v, ast.Dict) and not v.keys) or (isinstance(v, ast.Call) and is_name(v.func, 'dict') and not v.args and not v.keywords):
            st.fields[k] = DictV([])
    sx = SymEx(em.repo, inline=lambda f: True, max_depth=4)
    sx.max_steps = 20000
    try:
        first = sx.run(at, [Const('a')], st)
        if len(first) != 1 or not isinstance(first[0][1], New) or first[0][1].cls.name != 'Atom':
            res['why'] = 'atom(name) on an empty table does not return one new Atom (%s)' % '; '.join(repr(v) for _, v in first)[:80]
        else:
            s1, a1 = first[0]
            fields = [k for k, d in s1.fields.items() if isinstance(d, DictV) and any(v is a1 for _, v in d.pairs)]
            if len(fields) != 1:
                res['why'] = 'the new atom is not filed in a table of the engine: a second atom(name) makes a second object'
            else:
                res['field'] = fields[0]
                again = sx.run(at, [Const('a')], s1)
                if len(again) != 1 or again[0][1] is not a1 or len(again[0][0].fields[fields[0]].pairs) != 1 \
                        or again[0][0].fields[fields[0]].pairs[0][1] is not a1:
                    res['why'] = 'a second atom(name) with the same name does not return the filed object unchanged'
                else:
                    other = sx.run(at, [Const('b')], again[0][0])
                    if len(other) != 1 or other[0][1] is a1 or not isinstance(other[0][1], New) or \
                            not any(v is a1 for _, v in other[0][0].fields[fields[0]].pairs):
                        res['why'] = 'atom() of another name disturbs the filed atom'
                    else:
                        res['ok'] = True
                        res['why'] = 'evaluated: atom(n) files a new Atom under n in self.%s on a miss and returns the filed object on a hit' % fields[0]
    except AnalysisError as e:
        res['why'] = 'cannot evaluate atom(): %s' % e
        res['error'] = True
    em._atom_interning = res
    return res


def write_effects(em):
    """{func: set of (kind, class, field)} transitive over the call graph; kind in
    'rebind' (self.f = ..), 'mutate' (self.f[..] = / self.f.append(..)), 'intern' (self.f.setdefault)"""
    direct = {}
    interning = atom_interning(em)
    for f in em.repo.all_functions(('engine',)):
        eff = set()
        aliases = _field_aliases(f) if f.cls is not None else {}
        for x in own_nodes_ordered(f.node):
            if isinstance(x, ast.Attribute) and isinstance(x.ctx, (ast.Store, ast.Del)):
                cn = f.cls.name if (f.cls is not None and is_name(x.value, 'self')) else '?'
                eff.add(('rebind', cn, x.attr, x.lineno))
            tgt = None
            kind = 'mutate'
            if isinstance(x, ast.Call) and isinstance(x.func, ast.Attribute) and x.func.attr in _MUTATORS:
                tgt = x.func.value
                if x.func.attr == 'setdefault':
                    kind = 'intern'
            elif isinstance(x, ast.Subscript) and isinstance(x.ctx, (ast.Store, ast.Del)):
                tgt = x.value
            if isinstance(tgt, ast.Name) and f.cls is not None and tgt.id in aliases:
                # a local that stands for self.<field>
                tgt = ast.copy_location(ast.Attribute(value=ast.Name(id='self', ctx=ast.Load()), attr=aliases[tgt.id], ctx=ast.Load()), tgt)
            if isinstance(tgt, ast.Attribute) and is_name(tgt.value, 'self') and f.cls is not None:
                if interning['ok'] and f is interning['func'] and tgt.attr == interning['field']:
                    kind = 'intern'     # shown by evaluation: files a new atom on a miss, never replaces one
                eff.add((kind, f.cls.name, tgt.attr, x.lineno))
        direct[f] = eff
    total = {f: set(e) for f, e in direct.items()}
    changed = True
    while changed:
        changed = False
        for f in total:
            for c in em.cg.callees(f, with_refs=False):
                if c in total and c.name != '__init__':
                    new = total[c] - total[f]
                    if new:
                        total[f] |= new
                        changed = True
    return direct, total


def rule_queries_read_only(em, rep, rid):
    from .rules_query import query_path
    from .rules_db import split_builtins
    rep.rule(rid, 'write effects of the query path (query, match_dynamic, unification, meta-call builtins; the database '
                  'builtins excepted) are contained in {Variable._is_bound, Variable._value, the iterator objects\' own flags, '
                  'YP._atom_store via setdefault}')
    db, other = split_builtins(em)
    direct, total = write_effects(em)
    dbset = set(db)
    qp = [f for f in query_path(em) if f not in dbset]
    var = em.variable_class()[0].name
    iterator_classes = {c.name for c in em.repo.all_classes(('engine',)) if '__next__' in c.methods}
    atom_field = atom_interning(em)['field']
    n = 0
    for f in qp:
        n += 1
        # effects excluding what flows in through the database builtins (query -> function(*args) is dynamic
        # and does not appear in the static call graph anyway)
        eff = set()
        seen = set()
        stack = [f]
        while stack:
            g = stack.pop()
            if g in seen or g in dbset:
                continue
            seen.add(g)
            eff |= direct.get(g, set())
            stack.extend(c for c in em.cg.callees(g, with_refs=False) if c.name != '__init__')
        bad = [e for e in eff if not (
            (e[1] == var and e[2] in em.cell().fields) or
            (e[1] in iterator_classes) or
            (e[0] == 'intern' and e[2] == atom_field))]
        if bad:
            for e in sorted(bad):
                rep.violation(rid, '%s:%s.%s' % (f.qname, e[1], e[2]), 'evaluating a query %ss %s.%s (line %d): two suspended '
                              'queries, or two engines sharing it, interfere through this location' % (e[0], e[1], e[2], e[3]), f.loc())
        else:
            rep.ok(rid, f.qname, 'effects: %s' % sorted({'%s.%s' % (e[1], e[2]) for e in eff}), f.loc(), nontrivial=bool(eff))
    rep.minimum('functions on the query path', n, 10)


def cli_only_functions(em):
    """functions of the compiler module that only the command line runs: main() and what is reachable from it but not from
    the library entries"""
    comp = em.repo.module('compiler')

    def reach(f):
        out, stack = [], [f]
        while stack:
            g = stack.pop()
            if g in out:
                continue
            out.append(g)
            for n, cs in em.cg.calls.get(g, ()):
                stack.extend(c for c in cs if c.module is comp)
        return out
    main = comp.functions.get('main')
    lib = [comp.functions.get(n) for n in ('compile_prolog_from_string', 'compile_prolog_from_file')]
    lib_reach = {g for e in lib if e is not None for g in reach(e)}
    return {g for g in (reach(main) if main is not None else [])} - lib_reach


def rule_context_not_written(em, rep, rid):
    rep.rule(rid, 'the library half of the compiler never assigns an attribute of the options/context object it is given '
                  '(the default is the CompilerContext class itself, shared by all callers)')
    n = 0
    cli = cli_only_functions(em)
    for f in em.repo.all_functions(('compiler', 'yp_generator', 'yp_prolog_visitor')):
        if f in cli or (f.parent is not None and f.parent in cli):
            continue
        for x in own_nodes_ordered(f.node):
            if isinstance(x, ast.Attribute) and isinstance(x.ctx, (ast.Store, ast.Del)):
                base = norm(x.value)
                if base in ('ctx', 'options', 'context', 'self.context', 'CompilerContext', 'self.ctx'):
                    rep.violation(rid, '%s:%s' % (f.qname, norm(x)), 'writes the shared compiler options object', f.loc(x))
        n += 1
    rep.ok(rid, 'compiler-library', '%d functions never assign the options object' % n, None)


# ---------------------------------------------------------------------------------------------
# C15


TERM_CLASSES_WITH_PARTS = ('Variable', 'Functor')
NON_TERM_FIELDS = ['_name', '_is_bound', '_done']      # the flag of the binding cell is added under its real name by _note_cell


def _note_cell(em):
    flag = em.cell().flag
    if flag and flag not in NON_TERM_FIELDS:
        NON_TERM_FIELDS.append(flag)


def _dominating_tests(cfg, node):
    dom = cfg.g.dominators(cfg.entry)
    out = []
    for t in dom[node]:
        if t.kind != 'test':
            continue
        # which edge leads to node?
        for lab in ('true', 'false'):
            r = cfg.g.reach([cfg.entry], edge_ok=lambda lbl, a, b, t=t, lab=lab: not (a is t and lbl == lab))
            if node not in r:
                out.append((t, lab))
    return out


def _excludes_compound(tests, subject):
    """do the dominating tests establish that `subject` is not an instance of a class with
    term-valued parts (Variable, Functor / IUnifiable)?"""
    excluded = set()
    for t, lab in tests:
        e = t.ast
        neg = False
        while isinstance(e, ast.UnaryOp) and isinstance(e.op, ast.Not):
            e, neg = e.operand, not neg
        if isinstance(e, ast.Call) and is_name(e.func, 'isinstance') and len(e.args) == 2 and norm(e.args[0]) == subject:
            classes = {x.id for x in ast.walk(e.args[1]) if isinstance(x, ast.Name)}
            holds_when = 'false' if not neg else 'true'      # edge on which isinstance is False
            if lab == holds_when:
                excluded |= classes
    if 'IUnifiable' in excluded:
        return True
    return set(TERM_CLASSES_WITH_PARTS) <= excluded


def _deref_expr_ok(em, f, cfg, retnode, e, depth=0):
    """is expression e (evaluated at the return node) fully dereferenced? -> (ok, why)"""
    if depth > 5:
        return False, 'too deep'
    if e is None:
        return False, 'returns None'
    if isinstance(e, ast.Constant):
        return True, 'constant'
    if is_deref_call(e):
        return True, 'get_value call'
    if isinstance(e, ast.Call):
        c = em.cg.constructed_class(f, e)
        if c is not None:
            for a in e.args:
                ok, why = _deref_expr_ok(em, f, cfg, retnode, a, depth + 1)
                if not ok:
                    return False, 'constructor argument %s: %s' % (norm(a), why)
            return True, 'constructor of dereferenced parts'
        cs = em.cg.resolve_callable(f, e.func)
        if cs and all(x.name == 'get_value' for x in cs):
            return True, 'get_value call'
        return False, 'result of %s is not known to be dereferenced' % norm(e.func)
    if isinstance(e, (ast.ListComp, ast.GeneratorExp)):
        return _deref_expr_ok(em, f, cfg, retnode, e.elt, depth + 1)
    if isinstance(e, (ast.List, ast.Tuple)):
        for x in e.elts:
            ok, why = _deref_expr_ok(em, f, cfg, retnode, x, depth + 1)
            if not ok:
                return False, why
        return True, 'list of dereferenced parts'
    tests = _dominating_tests(cfg, retnode)
    if isinstance(e, ast.Name):
        if e.id == 'self':
            if f.cls is not None and not _class_has_term_fields(f.cls):
                return True, 'atomic self'
            # a variable: must be on the unbound path
            for t, lab in tests:
                ul = em.cell().unbound_label(t.ast, 'self', f)
                if ul is not None and ul == lab:
                    return True, 'self on the unbound path'
            return False, 'self returned although it may be bound / has parts'
        if e.id in f.all_params:
            if _excludes_compound(tests, e.id):
                return True, 'parameter known not to be a term with parts'
            return False, 'parameter %s returned as is' % e.id
        defs = [s for s in own_nodes(f.node) if isinstance(s, ast.Assign) and any(is_name(t, e.id) for t in s.targets)]
        if not defs:
            return False, 'unknown local %s' % e.id
        for s in defs:
            ok, why = _deref_expr_ok(em, f, cfg, retnode, s.value, depth + 1)
            if not ok:
                return False, 'local %s = %s: %s' % (e.id, norm(s.value), why)
        return True, 'local assigned dereferenced values'
    if isinstance(e, ast.Attribute):
        if e.attr in NON_TERM_FIELDS:
            return True, 'non-term field'
        if _excludes_compound(tests, norm(e)):
            return True, 'field known not to be a term with parts'
        return False, 'the term-valued field %s is returned as stored (a structure inside it keeps its variables)' % norm(e)
    if isinstance(e, ast.IfExp):
        a, wa = _deref_expr_ok(em, f, cfg, retnode, e.body, depth + 1)
        b, wb = _deref_expr_ok(em, f, cfg, retnode, e.orelse, depth + 1)
        return (a and b), (wa if not a else wb)
    return False, 'unrecognised expression %s' % norm(e)


def _class_has_term_fields(c):
    for m in c.methods.values():
        for x in ast.walk(m.node):
            if is_self_attr(x) and isinstance(x.ctx, ast.Store) and x.attr not in NON_TERM_FIELDS:
                return True
    return False


def rule_deref_closure(em, rep, rid):
    _note_cell(em)
    rep.rule(rid, 'every get_value implementation (and the module function) returns self only when atomic or unbound, the '
                  'result of get_value, or a constructor applied to such values; a term-valued field returned as stored is the violation')
    impls = [c.methods['get_value'] for c in em.repo.all_classes(('engine',)) if 'get_value' in c.methods]
    mf = em.engine.functions.get('get_value')
    if mf is None:
        raise AnalysisError('anchor vanished: engine.get_value')
    impls.append(mf)
    n = 0
    for f in impls:
        if f.cls is not None and 'abstractmethod' in ' '.join(f.decorators):
            continue
        cfg = em.cfg(f)
        rets = [x for x in cfg.nodes if x.kind == 'return']
        if 'fall' in cfg.exits and cfg.exits['fall'] in cfg.live:
            rep.violation(rid, f.qname + ':fallthrough', 'get_value can return None', f.loc())
        for r in rets:
            n += 1
            key = '%s:%s' % (f.qname, norm(r.stmt))
            ok, why = _deref_expr_ok(em, f, cfg, r, r.ast)
            if ok:
                rep.ok(rid, key, why, f.loc(r.stmt))
            else:
                rep.violation(rid, key, 'get_value does not dereference at every depth: %s. A saved answer (findall list, '
                              'asserted term, [v.get_value() for _ in q]) changes when the query backtracks' % why, f.loc(r.stmt))
    rep.minimum('get_value return sites', n, 5)


def rule_constructors_leave_arguments(em, rep, rid):
    rep.rule(rid, 'the term constructors of the engine (atom, functor, listpair, makelist, variable) do not change the Python '
                  'objects they are given: no parameter (or a local that stands for it) is the receiver of a mutating method, the '
                  'target of a subscript store / del, or of an augmented assignment, in the constructor or in a helper it hands the '
                  'parameter to - a caller that keeps its list and builds a second term from it gets the term the literal denotes')
    from .rules_extra import MUTATORS
    mut = set(MUTATORS) | {'reverse', 'sort'}
    yp = em.repo.cls('engine', 'YP')
    n = 0

    def changed(f, pname, depth=0):
        names = {pname}
        for x in own_nodes_ordered(f.node):
            if isinstance(x, ast.Assign) and len(x.targets) == 1 and isinstance(x.targets[0], ast.Name) and \
                    isinstance(x.value, ast.Name) and x.value.id in names:
                names.add(x.targets[0].id)
        rebound = False
        for x in own_nodes_ordered(f.node):
            # param = list(param) and the like: from here on the name is a private copy; (conservatively) stop looking
            if isinstance(x, ast.Assign) and any(is_name(t, pname) for t in x.targets) and not is_name(x.value, pname):
                rebound = True
        if rebound:
            return None
        for x in own_nodes_ordered(f.node):
            if isinstance(x, ast.Call) and isinstance(x.func, ast.Attribute) and x.func.attr in mut and \
                    isinstance(x.func.value, ast.Name) and x.func.value.id in names:
                return f, x
            tg = []
            if isinstance(x, ast.Assign):
                tg = x.targets
            elif isinstance(x, ast.AugAssign):
                tg = [x.target]
                if isinstance(x.target, ast.Name) and x.target.id in names and isinstance(x.op, (ast.Add, ast.Mult)):
                    return f, x
            elif isinstance(x, ast.Delete):
                tg = x.targets
            for t in tg:
                if isinstance(t, ast.Subscript) and isinstance(t.value, ast.Name) and t.value.id in names:
                    return f, x
            if isinstance(x, ast.Call) and depth < 3:
                for g in em.cg.resolve_callable(f, x.func):
                    if g.module is not f.module:
                        continue
                    for q in g.params:
                        a = arg_for_param(x, g, q)
                        if isinstance(a, ast.Name) and a.id in names:
                            r = changed(g, q, depth + 1)
                            if r:
                                return r
        return None
    for name in ('atom', 'functor', 'listpair', 'makelist', 'variable'):
        f = em.repo.lookup_method(yp, name)
        if f is None:
            continue
        for pname in f.params[1:]:
            n += 1
            key = 'YP.%s(%s)' % (name, pname)
            r = changed(f, pname)
            if r:
                g, x = r
                rep.violation(rid, key, '%s changes the object the caller handed in (%s): the first term is right, but what the caller builds '
                              'next from the same Python list is another term than the literal denotes' % (g.qname, norm(x)[:50]), g.loc(x))
            else:
                rep.ok(rid, key, 'only read', f.loc())
    rep.minimum('constructor parameters', n, 4)


def rule_to_python_siblings(em, rep, rid):
    _note_cell(em)
    rep.rule(rid, 'every to_python implementation reads term-valued fields only through get_value()/to_python() of the component')
    impls = [c.methods['to_python'] for c in em.repo.all_classes(('engine',)) if 'to_python' in c.methods]
    # the term-valued fields of the term classes (read through any receiver, e.g. a local walking down a list)
    term_fields = set()
    for c in em.repo.all_classes(('engine',)):
        if 'to_python' in c.methods and 'unify' in c.methods:
            for m in c.methods.values():
                for y in own_nodes(m.node):
                    if is_self_attr(y) and isinstance(y.ctx, ast.Store) and y.attr not in NON_TERM_FIELDS and y.attr != em.cell().flag:
                        term_fields.add(y.attr)
    n = 0
    for f in impls:
        if 'abstractmethod' in ' '.join(f.decorators):
            continue
        n += 1
        bad = None
        for x in own_nodes_ordered(f.node):
            if isinstance(x, ast.Attribute) and isinstance(x.ctx, ast.Load) and x.attr not in NON_TERM_FIELDS and \
                    (is_self_attr(x) or x.attr in term_fields):
                pc = getattr(x, '_parent', None)
                if isinstance(pc, ast.Call) and pc.func is x:
                    continue          # a method call on self, not a field read
                # must be (transitively) an argument of to_python/get_value or the iterable of a comprehension whose
                # element is converted
                ok = False
                child = x
                for p in parents(x):
                    if isinstance(p, ast.Call) and (is_name(p.func) and p.func.id in ('to_python', 'get_value', 'len')):
                        ok = True
                        break
                    if isinstance(p, ast.comprehension) and p.iter is child:
                        comp = p._parent
                        elt = comp.elt if hasattr(comp, 'elt') else None
                        if elt is not None and isinstance(elt, ast.Call) and is_name(elt.func) and elt.func.id in ('to_python', 'get_value'):
                            ok = True
                        break
                    if isinstance(p, ast.For) and p.iter is child and isinstance(p.target, ast.Name):
                        # for a in self._args: ... to_python(a) ...   (the element is only ever converted)
                        uses = [u for b in p.body for u in ast.walk(b) if is_name(u, p.target.id) and isinstance(u.ctx, ast.Load)]
                        ok = bool(uses) and all(isinstance(getattr(u, '_parent', None), ast.Call) and is_name(u._parent.func) and
                                                u._parent.func.id in ('to_python', 'get_value') for u in uses)
                        break
                    if isinstance(p, ast.stmt):
                        break
                    child = p
                if not ok:
                    bad = x
        key = f.qname
        if bad is not None:
            rep.violation(rid, key, 'to_python reads %s without converting it through to_python/get_value' % norm(bad), f.loc(bad))
        else:
            rep.ok(rid, key, 'components converted through to_python/get_value', f.loc())
    rep.minimum('to_python implementations', n, 3)


# ---------------------------------------------------------------------------------------------
# C13 freshness


class Freshness:
    """Which functions return a *renaming copy* of their argument: immutable as is, a fresh
    Variable per distinct unbound variable (memo), rebuilt Functors - at every depth."""

    def __init__(self, em):
        self.em = em
        _note_cell(em)
        self.var_cls = em.variable_class()[0]
        self.functor_cls = em.repo.cls('engine', 'Functor')
        cands = [f for f in em.repo.all_functions(('engine',)) if not f.is_generator and f.name not in ('__init__',)
                 and any(isinstance(x, ast.Return) and x.value is not None for x in own_nodes(f.node))]
        self.copiers = set(cands)
        self.why = {}
        self.used = set()
        self.recording = False
        changed = True
        while changed:
            changed = False
            for f in list(self.copiers):
                ok, why = self._is_copier(f)
                if not ok:
                    self.copiers.discard(f)
                    self.why[f] = why
                    changed = True
        self.recording = True

    def _is_copier(self, f):
        cfg = self.em.cfg(f)
        rets = [x for x in cfg.nodes if x.kind == 'return']
        if not rets or ('fall' in cfg.exits and cfg.exits['fall'] in cfg.live):
            return False, 'may return None'
        term_params = [p for p in (f.params[1:] if f.is_method else f.params)]
        if not term_params:
            return False, 'no parameter'
        allocates = False
        for r in rets:
            ok, why, alloc = self.fresh(f, cfg, r, r.ast)
            if not ok:
                return False, '%s: %s' % (norm(r.stmt), why)
            allocates = allocates or alloc
        if not allocates:
            return False, 'never allocates (identity function)'
        return True, ''

    def fresh(self, f, cfg, at, e, depth=0):
        """-> (ok, why, allocates)"""
        em = self.em
        if depth > 6:
            return False, 'too deep', False
        if isinstance(e, ast.Constant):
            return True, '', False
        if isinstance(e, ast.Attribute) and e.attr in NON_TERM_FIELDS:
            return True, '', False
        if isinstance(e, ast.Call) and is_name(e.func) and e.func.id in ('all', 'any', 'len', 'bool', 'isinstance', 'int', 'str', 'repr', 'hash', 'id'):
            return True, '', False          # a truth value / number / text: no term
        if isinstance(e, (ast.Compare, ast.BoolOp)) or (isinstance(e, ast.UnaryOp) and isinstance(e.op, ast.Not)):
            return True, '', False
        if isinstance(e, ast.Call):
            c = em.cg.constructed_class(f, e)
            if c is not None:
                if c is self.var_cls:
                    return True, '', True
                if c.name == 'Atom':
                    return True, '', False
                for a in e.args:
                    ok, why, _ = self.fresh(f, cfg, at, a, depth + 1)
                    if not ok:
                        return False, 'argument %s of %s(): %s' % (norm(a), c.name, why), False
                return True, '', True
            cs = em.cg.resolve_callable(f, e.func)
            if cs and all(x in self.copiers for x in cs):
                if getattr(self, 'recording', False):
                    self.used.update(cs)
                return True, '', True
            if is_deref_call(e):
                return False, 'get_value(x) returns x itself when x is an unbound variable, and structures that contain the caller\'s unbound variables', False
            return False, 'result of %s is not known to be a fresh copy' % norm(e.func), False
        if isinstance(e, (ast.ListComp, ast.GeneratorExp)):
            return self.fresh(f, cfg, at, e.elt, depth + 1)
        if isinstance(e, (ast.List, ast.Tuple)):
            al = False
            for x in e.elts:
                ok, why, a = self.fresh(f, cfg, at, x, depth + 1)
                if not ok:
                    return False, why, False
                al = al or a
            return True, '', al
        tests = _dominating_tests(cfg, at) if at is not None else []
        if isinstance(e, ast.Subscript) and isinstance(e.value, ast.Name):
            # memo lookup: every store into that mapping in this function is a fresh allocation
            m = e.value.id
            stores = [s for s in own_nodes(f.node) if isinstance(s, ast.Assign) and any(
                isinstance(t, ast.Subscript) and is_name(t.value, m) for t in s.targets)]
            if stores and all(self.fresh(f, cfg, None, s.value, depth + 1)[0] and self.fresh(f, cfg, None, s.value, depth + 1)[2] for s in stores):
                return True, '', True
            sd = [x for x in own_nodes(f.node) if isinstance(x, ast.Call) and isinstance(x.func, ast.Attribute) and x.func.attr == 'setdefault' and is_name(x.func.value, m)]
            return False, 'lookup in %s, which may hold objects that are not fresh' % m, False
        if isinstance(e, ast.Call) and isinstance(e.func, ast.Attribute) and e.func.attr == 'setdefault':
            return self.fresh(f, cfg, at, e.args[1], depth + 1) if len(e.args) > 1 else (False, 'setdefault without default', False)
        if isinstance(e, ast.Name):
            if e.id in f.all_params or e.id == 'self':
                if _excludes_compound(tests, e.id):
                    return True, '', False
                # re-bound to get_value(param) and narrowed afterwards
                return False, 'parameter %s may be (or contain) a variable or structure of the caller' % e.id, False
            defs = [s for s in own_nodes(f.node) if isinstance(s, ast.Assign) and any(is_name(t, e.id) for t in s.targets)]
            if not defs:
                return False, 'unknown local %s' % e.id, False
            # a local that is the dereferenced parameter, narrowed by the dominating tests
            if all(is_deref_call(s.value) for s in defs) and _excludes_compound(tests, e.id):
                return True, '', False
            al = False
            for s in defs:
                # each definition is judged under the tests that dominate *it* (single-exit style: result = ... per branch)
                ns = em.nodes_for(f, s) if cfg is not None else []
                ok, why, a = self.fresh(f, cfg, ns[0] if ns else at, s.value, depth + 1)
                if not ok:
                    return False, 'local %s = %s: %s' % (e.id, norm(s.value), why), False
                al = al or a
            # a list that is filled element by element
            for c in own_nodes(f.node):
                if isinstance(c, ast.Call) and isinstance(c.func, ast.Attribute) and is_name(c.func.value, e.id) and c.args and \
                        c.func.attr in ('append', 'insert', 'extend'):
                    ns = em.nodes_for(f, c) if cfg is not None else []
                    ok, why, a = self.fresh(f, cfg, ns[0] if ns else at, c.args[-1], depth + 1)
                    if not ok:
                        return False, '%s: %s' % (norm(c), why), False
                    al = al or a
                elif isinstance(c, ast.AugAssign) and is_name(c.target, e.id):
                    return False, 'local %s is updated in place (%s)' % (e.id, norm(c)), False
            return True, '', al
        if isinstance(e, ast.Attribute):
            if _excludes_compound(tests, norm(e)):
                return True, '', False
            return False, 'field %s is shared, not copied' % norm(e), False
        return False, 'unrecognised expression %s' % norm(e), False


def rule_store_snapshot(em, rep, rid, fr=None):
    rep.rule(rid, 'every value flowing into the field that holds a fact\'s arguments is immutable or freshly allocated at every '
                  'depth: it comes out of a renaming copy (new Variable per distinct unbound variable through one memo, rebuilt '
                  'Functors), not out of get_value or the caller\'s list')
    fr = fr or Freshness(em)
    ans = em.repo.cls('engine', 'Answer')
    init = ans.methods.get('__init__')
    if init is None:
        raise AnalysisError('anchor vanished: Answer.__init__')
    cfg = em.cfg(init)
    stores = [n for n in own_nodes_ordered(init.node) if isinstance(n, ast.Assign) and any(is_self_attr(t) for t in n.targets)]
    rep.minimum('fields of a stored fact', len(stores), 1)
    rep.analysed_add('renaming copies', sorted(f.qname for f in fr.copiers))
    for s in stores:
        fld = [t.attr for t in s.targets if is_self_attr(t)][0]
        key = 'engine.Answer.%s' % fld
        v = s.value
        if isinstance(v, ast.Name) and v.id in init.params:
            # the constructor stores its parameter: every construction site must pass fresh values
            sites = em.cg.call_sites_of(init)
            if not sites:
                raise AnalysisError('no construction site of Answer found')
            allok = True
            for f, call in sites:
                a = arg_for_param(call, init, v.id)
                ok, why, _ = fr.fresh(f, em.cfg(f), None, a) if a is not None else (False, 'no argument', False)
                if not ok:
                    allok = False
                    rep.violation(rid, '%s<-%s:%s' % (key, f.qname, norm(a)), 'the stored fact shares objects with the asserting clause: %s. '
                                  'Binding or backtracking those variables later changes what the fact matches' % why, f.loc(call))
            if allok:
                rep.ok(rid, key, 'all %d construction sites pass renamed copies' % len(sites), init.loc(s))
        else:
            ok, why, _ = fr.fresh(init, cfg, None, v)
            if ok:
                memo_ok, mwhy = _one_memo(init, v)
                if memo_ok:
                    rep.ok(rid, key, 'stored value %s is a renaming copy' % norm(v), init.loc(s))
                else:
                    rep.violation(rid, key, mwhy, init.loc(s))
            else:
                rep.violation(rid, key, 'the stored fact shares objects with the asserting clause: %s' % why, init.loc(s))
    return fr


def _one_memo(f, e):
    """the copier calls inside e share one memo created outside the comprehension"""
    exprs = [e]
    if isinstance(e, ast.Name):
        for c in own_nodes(f.node):
            if isinstance(c, ast.Assign) and any(is_name(t, e.id) for t in c.targets):
                exprs.append(c.value)
            if isinstance(c, ast.Call) and isinstance(c.func, ast.Attribute) and is_name(c.func.value, e.id) and c.args:
                exprs.append(c)
    for x in [y for ex in exprs for y in ast.walk(ex)]:
        if isinstance(x, ast.Call) and len(x.args) >= 2 and isinstance(x.args[1], (ast.Dict, ast.Call)):
            if isinstance(getattr(x, '_parent', None), (ast.ListComp, ast.GeneratorExp)) or any(
                    isinstance(p, (ast.ListComp, ast.GeneratorExp, ast.For, ast.While)) for p in parents(x)):
                return False, 'each argument of the fact is copied with its own variable map: a variable that occurs twice ' \
                              '(p(X, X)) is stored as two different variables'
    return True, ''


def _only_atomic_under_flag(em, ans, m, cfg, call, field):
    """the call is dominated by the true side of a test of ``self.G``, where G is bound once, in the constructor, to
    all(<v is of an atomic term class> for v in self.<field>) and the field is not re-bound afterwards"""
    nodes = [n for n in em.nodes_for(m, call) if n.kind == 'call' and n.ast is call]
    if not nodes:
        return False
    dom = cfg.g.dominators(cfg.entry)
    init = ans.methods.get('__init__')
    if init is None:
        return False
    for k in ans.methods.values():
        if k is not init and any(isinstance(x, ast.Attribute) and x.attr == field and isinstance(x.ctx, (ast.Store, ast.Del)) for x in own_nodes(k.node)):
            return False
    for t in dom[nodes[0]]:
        if t.kind != 'test':
            continue
        flags = [x.attr for x in ast.walk(t.ast) if is_self_attr(x)]
        for g in flags:
            stores = [(k, s_) for k in ans.methods.values() for s_ in own_nodes(k.node) if isinstance(s_, ast.Assign) and any(is_self_attr(tg, g) for tg in s_.targets)]
            if len(stores) != 1 or stores[0][0] is not init:
                continue
            v = stores[0][1].value
            if not (isinstance(v, ast.Call) and is_name(v.func, 'all') and len(v.args) == 1 and isinstance(v.args[0], (ast.ListComp, ast.GeneratorExp))):
                continue
            comp = v.args[0]
            if len(comp.generators) != 1 or comp.generators[0].ifs or not is_self_attr(comp.generators[0].iter, field) or not is_name(comp.generators[0].target):
                continue
            var = comp.generators[0].target.id
            e = comp.elt
            cls_name = None
            if isinstance(e, ast.Compare) and len(e.ops) == 1 and isinstance(e.ops[0], ast.Is) and isinstance(e.left, ast.Call) and \
                    is_name(e.left.func, 'type') and e.left.args and is_name(e.left.args[0], var) and is_name(e.comparators[0]):
                cls_name = e.comparators[0].id
            elif isinstance(e, ast.Call) and is_name(e.func, 'isinstance') and len(e.args) == 2 and is_name(e.args[0], var) and is_name(e.args[1]):
                cls_name = e.args[1].id
            ci = em.engine.classes.get(cls_name) if cls_name else None
            if ci is None or _class_has_term_fields(ci) or ci is em.cell().cls:
                continue
            # the true side of the test leads to the call
            r = cfg.g.reach([cfg.entry], edge_ok=lambda lbl, a_, b_, t=t: not (a_ is t and lbl == 'true'))
            if nodes[0] not in r and not (isinstance(t.ast, ast.UnaryOp) and isinstance(t.ast.op, ast.Not)):
                return True
    return False


def rule_fresh_per_use(em, rep, rid, fr=None):
    rep.rule(rid, 'the stored arguments reach unification in Answer.match only through a renaming copy, one memo per use')
    fr = fr or Freshness(em)
    ans = em.repo.cls('engine', 'Answer')
    m = ans.methods.get('match')
    if m is None:
        raise AnalysisError('anchor vanished: Answer.match')
    cfg = em.cfg(m)
    n = 0
    for call, callees in em.cg.calls.get(m, ()):
        if not em.is_binder_call(m, call):
            continue
        for a in call.args:
            if not any(is_self_attr(x) for x in ast.walk(a)) and not (isinstance(a, ast.Name) and a.id not in m.params):
                continue
            n += 1
            key = '%s:%s' % (m.qname, norm(a))
            ok, why, alloc = fr.fresh(m, cfg, None, a)
            if not (ok and alloc) and is_self_attr(a) and _only_atomic_under_flag(em, ans, m, cfg, call, a.attr):
                rep.ok(rid, key, 'under a flag computed at construction that says every stored argument is an atomic term: nothing to rename', m.loc(call))
                continue
            if ok and alloc:
                mo, mw = _one_memo(m, a)
                if not mo:
                    rep.violation(rid, key, mw, m.loc(call))
                else:
                    rep.ok(rid, key, 'fresh variables for every use of the fact', m.loc(call))
            else:
                rep.violation(rid, key, 'a use of the fact unifies the caller\'s arguments with the stored terms themselves (%s): two '
                              'simultaneous uses of a non-ground fact constrain each other (assertz(p(_)), p(a), p(b) fails)' % (why or 'no copy is made'),
                              m.loc(call))
    rep.minimum('stored-term arguments of the unification in Answer.match', n, 1)
    # the stored terms are not handed to a unification from anywhere else either
    init = ans.methods.get('__init__')
    stored = {t.attr for s_ in own_nodes(init.node) if isinstance(s_, ast.Assign) for t in s_.targets if is_self_attr(t)} if init else set()
    for f in em.repo.all_functions(('engine',)):
        if f.cls is ans:
            continue
        for call, callees in em.cg.calls.get(f, ()):
            if not em.is_binder_call(f, call):
                continue
            for a in call.args:
                hits = [x for x in ast.walk(a) if isinstance(x, ast.Attribute) and x.attr in stored and isinstance(x.ctx, ast.Load) and
                        not is_name(x.value, 'self')]
                if hits and isinstance(a, ast.Attribute):
                    rep.violation(rid, '%s:%s' % (f.qname, norm(a)), 'the stored terms of a fact (%s) are unified with the caller\'s arguments '
                                  'directly, outside the fact\'s own match(): no renaming copy is made for this use, so two uses of a fact with '
                                  'variables (or a use and the clause that asserted it) constrain each other' % norm(a), f.loc(call))


def rule_copier_derefs(em, rep, rid, fr):
    from .eng import deref_violations
    rep.rule(rid, 'inside a renaming copy the class tests apply to the dereferenced term (a bound variable is copied as its '
                  'value, not replaced by a fresh variable)')
    used = list(fr.used)
    n = 0
    for f in sorted(used, key=lambda x: x.qname):
        ps = f.params[1:] if f.is_method else f.params
        if not ps:
            continue
        n += 1
        v = deref_violations(em, f, [ps[0]])
        if v:
            rep.violation(rid, '%s:%s' % (f.qname, ps[0]), 'the copy inspects its argument without dereferencing it (%s): a variable '
                          'that is bound at the time of the assert is stored as a fresh unbound variable' % v[0][0], f.loc(v[0][1]))
        else:
            rep.ok(rid, '%s:%s' % (f.qname, ps[0]), 'class tests apply to get_value(%s)' % ps[0], f.loc())
    if not n:
        rep.ok(rid, 'copiers', 'no renaming copy is in use (see S1/S2)', None, nontrivial=False)
    return n


def rule_copier_map_shared(em, rep, rid, fr):
    """C07.S6 / C13.S5: one renaming map per fact"""
    from .callgraph import arg_for_param
    rep.rule(rid, 'a renaming copy that records its renaming in a map parameter is given, by every caller that copies the '
                  'arguments of one fact one after the other (a loop / comprehension over them), one map created outside that '
                  'loop - a map per argument would rename a variable shared by two arguments to two unrelated variables')
    n = 0
    for f in sorted(fr.used, key=lambda x: x.qname):
        ps = f.params[1:] if f.is_method else f.params
        maps = []
        for q in ps[1:]:
            src = [x for x in own_nodes(f.node) if (isinstance(x, ast.Compare) and any(isinstance(o, (ast.In, ast.NotIn)) for o in x.ops) and
                                                   any(is_name(c, q) for c in x.comparators)) or
                   (isinstance(x, ast.Subscript) and is_name(x.value, q)) or
                   (isinstance(x, ast.Call) and isinstance(x.func, ast.Attribute) and is_name(x.func.value, q) and x.func.attr in ('get', 'setdefault'))]
            if src:
                maps.append(q)
        for q in maps:
            for g, call in em.cg.call_sites_of(f):
                if g is f:
                    continue
                n += 1
                key = '%s:%s' % (g.qname, norm(call)[:50])
                loops = []
                for p_ in parents(call):
                    if isinstance(p_, (ast.FunctionDef, ast.Lambda)):
                        break
                    if isinstance(p_, (ast.For, ast.While, ast.ListComp, ast.GeneratorExp, ast.SetComp, ast.DictComp)):
                        loops.append(p_)
                a = arg_for_param(call, f, q)
                if not loops:
                    rep.ok(rid, key, 'copies one term: a map of its own is all it needs', g.loc(call), nontrivial=False)
                    continue
                why = None
                if a is None:
                    why = 'no map is passed: every call makes its own'
                elif isinstance(a, ast.Dict) or (isinstance(a, ast.Call) and is_name(a.func, 'dict')):
                    why = 'a new map is created for every call'
                elif is_name(a) and a.id not in g.all_params:
                    defs = [s_ for s_ in own_nodes(g.node) if isinstance(s_, (ast.Assign, ast.AnnAssign)) and
                            any(is_name(t, a.id) for t in (s_.targets if isinstance(s_, ast.Assign) else [s_.target]))]
                    inside = [s_ for s_ in defs if any(any(s_ is y for y in ast.walk(l)) for l in loops)]
                    if inside:
                        why = 'the map %s is created anew inside the loop over the arguments' % a.id
                    elif not defs:
                        why = None      # a closure variable / loop target: not decided here
                if why:
                    rep.violation(rid, key, 'the arguments of one fact are copied with a renaming map each (%s): a variable that occurs in two '
                                  'arguments becomes two different variables, so the stored fact matches, and is retracted for, '
                                  'patterns it does not match' % why, g.loc(call))
                else:
                    rep.ok(rid, key, 'one map, created outside the loop over the arguments, is shared by all of them', g.loc(call))
    if not n:
        rep.ok(rid, 'copiers', 'no renaming copy with a map parameter is called from outside (see S1/S2)', None, nontrivial=False)


# ---------------------------------------------------------------------------------------------
# C16


def rule_interface_complete(em, rep, rid):
    rep.rule(rid, 'every concrete subclass of IUnifiable defines get_value, to_python and unify')
    iu = em.repo.cls('engine', 'IUnifiable')
    # classes that are constructed somewhere (an abstract intermediate class need not be complete)
    subs = [c for c in em.repo.subclasses(iu, strict=True) if c in em.repo.instantiated()]
    rep.minimum('term classes', len(subs), 3)
    for c in subs:
        missing = [m for m in ('get_value', 'to_python', 'unify') if em.repo.lookup_method(c, m) in (None, iu.methods.get(m))]
        if missing:
            rep.violation(rid, c.qname, 'term class %s inherits the abstract %s' % (c.name, ', '.join(missing)), c.loc())
        else:
            rep.ok(rid, c.qname, 'implements the three interface methods', c.loc())


def _const_str(em, f, e):
    """constant string an expression evaluates to, following self.X fields bound once in __init__"""
    if isinstance(e, ast.Constant) and isinstance(e.value, str):
        return e.value
    if isinstance(e, ast.Name):
        r = em.repo.resolve_name(f, e.id)
        if r and r[0] == 'var' and isinstance(r[2], ast.Constant) and isinstance(r[2].value, str) and \
                len(r[1].assign_nodes.get(e.id, [])) == 1:
            return r[2].value
    if is_self_attr(e):
        vals = init_field_values(em, em.YP).get(e.attr, [])
        if len(vals) >= 1:
            return _const_str(em, vals[0][0], vals[0][1].value)
    return None


def rule_constant_agreement(em, rep, rid):
    rep.rule(rid, 'constants agree across engine, compiler and to_python: the functor name listpair() builds is the one '
                  'Functor.to_python treats as a list cell; the name behind ATOM_NIL is the one Atom.to_python maps to []; makelist '
                  'folds listpair over the reversed list and ends in ATOM_NIL; the context entry ATOM_NIL is that object')
    yp = em.YP
    lp = em.repo.lookup_method(yp, 'listpair')
    ml = em.repo.lookup_method(yp, 'makelist')
    if lp is None or ml is None:
        raise AnalysisError('anchor vanished: YP.listpair/makelist')
    # listpair's functor name
    dot = None
    for r in [x for x in own_nodes(lp.node) if isinstance(x, ast.Return)]:
        if isinstance(r.value, ast.Call) and r.value.args:
            dot = _const_str(em, lp, r.value.args[0])
            order = [norm(a) for a in (r.value.args[1].elts if len(r.value.args) > 1 and isinstance(r.value.args[1], ast.List) else [])]
            ps = lp.params[1:]
            if order == ps:
                rep.ok(rid, 'listpair:order', 'listpair(head, tail) builds %s(head, tail)' % dot, lp.loc(r))
            else:
                rep.violation(rid, 'listpair:order', 'listpair does not build a cell with (head, tail) in this order: %s' % order, lp.loc(r))
    functor = em.repo.cls('engine', 'Functor')
    ftp = functor.methods.get('to_python')
    cell = None
    for x in own_nodes(ftp.node):
        if isinstance(x, ast.Compare) and '_name' in norm(x.left) and _const_str(em, ftp, x.comparators[0]) is not None:
            cell = _const_str(em, ftp, x.comparators[0])
    if dot is None or cell is None:
        raise AnalysisError('cannot determine the list-cell functor name (listpair: %r, to_python: %r)' % (dot, cell))
    if dot == cell:
        rep.ok(rid, 'list-cell-name', 'listpair builds %r and Functor.to_python decodes %r' % (dot, cell), lp.loc())
    else:
        rep.violation(rid, 'list-cell-name', 'listpair builds functor %r but Functor.to_python treats %r as the list cell: lists are not '
                      'converted to Python lists' % (dot, cell), lp.loc())
    # nil
    nil_vals = init_field_values(em, yp).get('ATOM_NIL', [])
    nil = None
    if nil_vals:
        v = nil_vals[0][1].value
        if isinstance(v, ast.Call) and v.args:
            nil = _const_str(em, nil_vals[0][0], v.args[0])
    atom = em.repo.cls('engine', 'Atom')
    atp = atom.methods.get('to_python')
    nil2 = None
    for x in own_nodes(atp.node):
        if isinstance(x, ast.If) and isinstance(x.test, ast.Compare) and '_name' in norm(x.test.left) and _const_str(em, atp, x.test.comparators[0]) is not None:
            if any(isinstance(r, ast.Return) and isinstance(r.value, ast.List) and not r.value.elts for r in x.body):
                nil2 = _const_str(em, atp, x.test.comparators[0])
    if nil is None or nil2 is None:
        raise AnalysisError('cannot determine the empty-list atom name (engine: %r, to_python: %r)' % (nil, nil2))
    if nil == nil2:
        rep.ok(rid, 'nil-name', 'ATOM_NIL is atom(%r) and Atom.to_python maps %r to []' % (nil, nil2), atp.loc())
    else:
        rep.violation(rid, 'nil-name', 'ATOM_NIL is atom(%r) but Atom.to_python maps %r to []' % (nil, nil2), atp.loc())
    # makelist
    # decided by evaluating makelist([a, b, c]) with listpair left uninterpreted: pair(a, pair(b, pair(c, ATOM_NIL)))
    from .symex import SymEx, ListV, Sym, CallV, PathState
    from .rules_compile import _nest

    class _SX(SymEx):
        def apply(self, e, f, args, kw, st, func):
            if isinstance(f, tuple) and f[0] == 'bound' and f[1].name == 'listpair':
                return [(st, CallV('listpair', args))]
            return SymEx.apply(self, e, f, args, kw, st, func)
    ok = False
    try:
        outs = _SX(em.repo, inline=lambda f: False, opaque=lambda n: False).run(ml, [ListV([Sym('a'), Sym('b'), Sym('c')])], PathState())
        ok = bool(outs)
        for st_, v_ in outs:
            heads, tail = _nest(v_)
            if [repr(h) for h in heads] != ['a', 'b', 'c'] or 'ATOM_NIL' not in repr(tail):
                ok = False
    except (AnalysisError, RecursionError):
        src = norm(ml.node)
        ok = 'reversed(' in src and 'listpair' in src and 'ATOM_NIL' in src
    if ok:
        rep.ok(rid, 'makelist', 'folds listpair over the reversed list onto ATOM_NIL', ml.loc())
    else:
        rep.violation(rid, 'makelist', 'makelist does not fold listpair(element, rest) from the right onto ATOM_NIL (element order or '
                      'terminator differ from what [a,b,c] denotes)', ml.loc())
    # context entry
    from .rules_query import context_literal_keys
    context_literal_keys(em)
    lit = em._context_literal
    for k, v in zip(lit.keys, lit.values):
        if k.value == 'ATOM_NIL':
            if is_self_attr(v, 'ATOM_NIL'):
                rep.ok(rid, 'context:ATOM_NIL', 'compiled [] is this engine\'s ATOM_NIL', None)
            else:
                rep.violation(rid, 'context:ATOM_NIL', 'the name ATOM_NIL in loaded code is %s' % norm(v), em.engine.loc(v))
    # name comparison of atoms
    au = em.repo.lookup_method(atom, 'unify')
    if au is None:
        raise AnalysisError('anchor vanished: Atom.unify')
    cmp_ = [x for x in own_nodes(em.view(au).node) if isinstance(x, ast.Compare) and '_name' in norm(x)]
    if not cmp_:
        # double dispatch: the comparison sits in the method of the atom class that the other term calls back
        for m_ in atom.methods.values():
            if m_.name not in ('__init__', '__str__', '__repr__', 'to_python', 'name', 'get_value', 'unify'):
                cmp_ += [x for x in own_nodes(em.view(m_).node) if isinstance(x, ast.Compare) and norm(x).count('_name') >= 2]
    if cmp_ and all(isinstance(c.ops[0], (ast.Eq, ast.NotEq)) for c in cmp_):
        rep.ok(rid, 'atom-unify-by-name', 'atoms unify when their names are equal (==), also across engines', au.loc(cmp_[0]))
    else:
        rep.violation(rid, 'atom-unify-by-name', 'atoms are not compared by name with ==: atoms of the same name from different '
                      'engines (or created with Atom() directly) do not unify', au.loc())
    # interning
    at = em.repo.lookup_method(yp, 'atom')
    res = atom_interning(em)
    if res['ok']:
        rep.ok(rid, 'atom-interning', res['why'], at.loc())
    elif res.get('error'):
        raise AnalysisError(res['why'])
    else:
        rep.violation(rid, 'atom-interning', 'atom() does not intern: %s' % res['why'], at.loc())


def rule_atoms_unify_by_name(em, rep, rid):
    rep.rule(rid, 'two atoms unify exactly when their names are equal (a comparison with == / != on the name in Atom.unify): '
                  'identity would make atoms created with Atom(...), by another engine, or before a clear() different terms')
    atom = em.repo.cls('engine', 'Atom')
    au = em.repo.lookup_method(atom, 'unify')
    if au is None:
        raise AnalysisError('anchor vanished: Atom.unify')
    cmp_ = [x for x in own_nodes(em.view(au).node) if isinstance(x, ast.Compare) and '_name' in norm(x)]
    if not cmp_:
        # double dispatch: the comparison sits in the method of the atom class that the other term calls back
        for m_ in atom.methods.values():
            if m_.name not in ('__init__', '__str__', '__repr__', 'to_python', 'name', 'get_value', 'unify'):
                cmp_ += [x for x in own_nodes(em.view(m_).node) if isinstance(x, ast.Compare) and norm(x).count('_name') >= 2]
    if cmp_ and all(isinstance(c.ops[0], (ast.Eq, ast.NotEq)) for c in cmp_):
        rep.ok(rid, 'atom-unify-by-name', 'atoms unify when their names are equal (==), also across engines', au.loc(cmp_[0]))
    else:
        rep.violation(rid, 'atom-unify-by-name', 'atoms are not compared by name with ==: atoms of the same name from different '
                      'engines (or created with Atom() directly, or kept across clear()) do not unify', au.loc())
