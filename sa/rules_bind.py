"""Rules about the binding cell and the generators that hold bindings (C02, C03, C17)."""
import ast

from .model import AnalysisError, own_nodes, own_nodes_ordered, is_name, is_self_attr, norm, parents, local_names
from .cfg import CFG, ProductCFG
from .eng import EngineModel, is_deref_call, names_loaded


def _recv(attr_node):
    return norm(attr_node.value)


def bind_sites(em):
    """(func, cfg, store node) for every store that makes a variable bound: a value other than the "unbound" marker
    written into the cell's state field (``X._is_bound = True``, or ``X._value = v`` for a cell with a marker)"""
    out = []
    cell = em.cell()
    for f in em.repo.all_functions():
        if f.name == '__init__' and f.cls is cell.cls:
            continue
        if not any(isinstance(n, ast.Attribute) and n.attr == cell.state_field and isinstance(n.ctx, ast.Store)
                   for n in own_nodes(f.node)):
            continue
        cfg = em.cfg(f)
        for n in cfg.nodes:
            if cell.is_bind(n):
                out.append((f, cfg, n))
    return out


def rule_undo_on_all_exits(em, rep, rid):
    """U1: every path from a bind to any exit of the frame - return, fall-through, exception,
    close()/garbage collection at a yield - passes the matching unbind."""
    rep.rule(rid, 'every path from a store X._is_bound=True to EXIT(return|fall|exc|close), with throw and close '
                  'edges out of every yield on the way, passes a store X._is_bound=False (must-pass-through on the CFG)')
    sites = bind_sites(em)
    cell = em.cell()
    rep.minimum('bind sites (stores of a non-False value into _is_bound)', len(sites), 1)
    for f, cfg, n in sites:
        recv = _recv(n.ast)
        key = '%s:%s._is_bound' % (f.qname, recv)
        path = cfg.g.find_path(n, lambda m: m.kind == 'exit', avoid=lambda m: cell.is_unbind(m, recv))
        rep.analysed_add('functions', f.qname)
        if path is not None:
            rep.violation(rid, key, 'a binding made here survives the exit of the generator: the path to %s '
                          'does not reset the variable (a variable stays bound after the query is closed, dropped '
                          'or unwound by an exception)' % ('EXIT(%s)' % path[-1][1].info),
                          f.loc(n.stmt), cfg.describe_path(path))
        else:
            ny = len([m for m in cfg.g.reach([n], avoid=lambda m: cell.is_unbind(m, recv)) if m.kind in ('yield', 'yieldfrom')])
            rep.ok(rid, key, 'all exits pass the unbind; %d suspension point(s) inside the bound region' % ny, f.loc(n.stmt))


def _possible_strings(em, f, a):
    """the strings a name argument can be: a literal, or a loop variable over a literal/module-constant tuple of literals"""
    if isinstance(a, ast.Constant):
        return {a.value}
    if isinstance(a, ast.Name):
        loops = [s for s in own_nodes(f.node) if isinstance(s, (ast.For, ast.comprehension)) and is_name(s.target, a.id)]
        others = [s for s in own_nodes(f.node) if isinstance(s, (ast.Assign, ast.AugAssign)) and any(
            is_name(x, a.id) and isinstance(x.ctx, ast.Store) for t in (s.targets if isinstance(s, ast.Assign) else [s.target]) for x in ast.walk(t))]
        if not loops or others or a.id in f.all_params:
            return None
        out = set()
        for l in loops:
            it = l.iter
            if isinstance(it, ast.Name):
                r = em.repo.resolve_name(f, it.id)
                if not (r and r[0] == 'var' and len(r[1].assign_nodes.get(it.id, [])) == 1):
                    return None
                it = r[2]
            if not (isinstance(it, (ast.Tuple, ast.List)) and all(isinstance(x, ast.Constant) for x in it.elts)):
                return None
            out |= {x.value for x in it.elts}
        return out
    return None


def rule_bind_ownership(em, rep, rid):
    """B1: only the variable class writes the binding cell; bind only when unbound, to a
    dereferenced value, and never to itself."""
    rep.rule(rid, 'the fields _is_bound/_value are stored only through self in the class that owns them; the bind is '
                  'dominated by the test "not bound", the value stored was produced by get_value, and a comparison of '
                  'that value with self dominates the bind on its unequal side')
    owners = em.variable_class()
    cell = em.cell()
    CELLF = tuple(cell.fields)
    if len(owners) != 1:
        rep.violation(rid, 'owners', 'the binding cell is written by more than one class: %s' % [c.qname for c in owners])
        return
    var = owners[0]
    # (a) stores only via self inside the owner
    count = 0
    for f in em.repo.all_functions():
        for n in own_nodes_ordered(f.node):
            if isinstance(n, ast.Attribute) and n.attr in CELLF and isinstance(n.ctx, (ast.Store, ast.Del)):
                count += 1
                key = '%s:%s' % (f.qname, norm(n))
                if f.cls is var and is_name(n.value, 'self') and f.parent is None:
                    rep.ok(rid + 'a', key, 'store through self in %s' % var.name, f.loc(n))
                else:
                    rep.violation(rid + 'a', key, 'the binding cell of a variable is written outside %s (bindings made '
                                  'here are not undone by the binder\'s finally)' % var.qname, f.loc(n))
            if isinstance(n, ast.Call) and is_name(n.func, 'setattr') and len(n.args) >= 2 and f.module.name == 'engine':
                # (only the engine module handles variables: the command line sets its options with setattr)
                names = _possible_strings(em, f, n.args[1])
                if names is None or names & set(CELLF):
                    rep.violation(rid + 'a', '%s:%s' % (f.qname, norm(n)), 'setattr may write the binding cell', f.loc(n))
    rep.minimum('stores to the binding cell', count, 3)
    binders = {f for f, _, _ in bind_sites(em)}
    for f in em.repo.all_functions():
        if f in binders or f.name == '__init__':
            continue
        for n in own_nodes_ordered(f.node):
            if isinstance(n, ast.Attribute) and n.attr in CELLF and isinstance(n.ctx, (ast.Store, ast.Del)):
                rep.violation(rid + 'e', '%s:%s' % (f.qname, norm(n)), 'the binding cell is rewritten outside the binder (%s): the change is not '
                              'undone when the binding that it shortcuts is undone, so an older alias silently points somewhere else '
                              'after backtracking' % f.name, f.loc(n))
    for f, cfg, n in bind_sites(em):
        if f.cls is not var:
            continue
        recv = _recv(n.ast)
        key = '%s:%s._is_bound' % (f.qname, recv)
        dom = cfg.g.dominators(cfg.entry)
        # (b) dominated by "not bound"
        okb = False
        for t in dom[n]:
            if t.kind == 'test' and (cell.mentions_state(t.ast) or isinstance(t.ast, (ast.Compare, ast.UnaryOp, ast.Name))):
                lab = cell.unbound_label(t.ast, recv, f)
                if lab is None:
                    continue
                # the store must be unreachable when the unbound edge is removed
                r = cfg.g.reach([cfg.entry], edge_ok=lambda lbl, a, b, t=t, lab=lab: not (a is t and lbl == lab))
                if n not in r:
                    okb = True
        if okb:
            rep.ok(rid + 'b', key, 'bind only on the not-bound branch', f.loc(n.stmt))
        else:
            rep.violation(rid + 'b', key, 'a variable may be bound while it is already bound (the earlier binding is '
                          'overwritten and cannot be restored)', f.loc(n.stmt))
        # (c) value stored is dereferenced
        if cell.kind == 'flag':
            vstores = [m for m in dom[n] if m.kind == 'store' and isinstance(m.ast, ast.Attribute) and m.ast.attr == cell.value
                       and _recv(m.ast) == recv]
        else:
            vstores = [n]           # the bind is the store of the value
        if not vstores:
            rep.violation(rid + 'c', key, 'no store to %s.%s dominates the bind' % (recv, cell.value), f.loc(n.stmt))
            continue
        last = max(vstores, key=lambda m: len(dom[m]))
        val = last.info
        derefd = is_deref_call(val)
        if not derefd and isinstance(val, ast.Name):
            # a local that was assigned from get_value on every path
            defs = [m for m in cfg.nodes if m.kind == 'store' and is_name(m.ast, val.id)]
            derefd = bool(defs) and all(is_deref_call(m.info) for m in defs) and val.id not in f.all_params
        if derefd:
            rep.ok(rid + 'c', key, 'value stored is %s' % norm(val), f.loc(last.stmt))
        else:
            rep.violation(rid + 'c', key, 'the variable is bound to %s, which is not dereferenced: binding X to a '
                          'variable that is itself bound to X creates a cycle' % norm(val), f.loc(last.stmt))
        # (d) identity test against self
        okd = False
        for t in dom[n]:
            if t.kind != 'test' or not isinstance(t.ast, ast.Compare) or len(t.ast.ops) != 1:
                continue
            l, r_ = norm(t.ast.left), norm(t.ast.comparators[0])
            sides = {l, r_}
            vals = {norm(last.ast)}
            if isinstance(val, ast.Name):
                vals.add(val.id)
            if recv in sides and (sides - {recv}) and (sides - {recv}) <= vals:
                op = t.ast.ops[0]
                lab = 'false' if isinstance(op, (ast.Eq, ast.Is)) else 'true' if isinstance(op, (ast.NotEq, ast.IsNot)) else None
                if lab is None:
                    continue
                r = cfg.g.reach([cfg.entry], edge_ok=lambda lbl, a, b, t=t, lab=lab: not (a is t and lbl == lab))
                if n not in r:
                    okd = True
        if cell.kind == 'sentinel':
            if isinstance(cell.sentinel, ast.Constant):
                rep.violation(rid + 'f', key, 'the cell holds %s while the variable is unbound, and %s is also a value a variable can be '
                              'bound to (a Python constant is a legal term): unify(X, %s) stores it and leaves X unbound although the '
                              'unification succeeds' % (norm(cell.sentinel), norm(cell.sentinel), norm(cell.sentinel)), f.loc(n.stmt))
            else:
                rep.ok(rid + 'f', key, 'the "unbound" marker %s is a private object no term can be' % norm(cell.sentinel), f.loc(n.stmt))
        if okd:
            rep.ok(rid + 'd', key, 'self-unification is excluded before the bind', f.loc(n.stmt))
        else:
            rep.violation(rid + 'd', key, 'no test "value is not the variable itself" dominates the bind: X = X '
                          'would bind X to itself (get_value then never returns)', f.loc(n.stmt))


# ---------------------------------------------------------------------------------------------
# escape of binder generators

_CONSUMERS = {'iter', 'next', 'list', 'tuple', 'sorted', 'reversed', 'enumerate', 'zip', 'any', 'all', 'len'}


def _sink(em, f, call):
    """classify where the value of ``call`` goes: ('loop'|'delegate'|'return'|'consumed'|'local',name|
    'element',name|'field',text|'global',name|'arg',text|'discard'|'other')"""
    node = call
    p = getattr(node, '_parent', None)
    while isinstance(p, ast.Call) and isinstance(p.func, ast.Name) and p.func.id in ('iter',) and node in p.args:
        node, p = p, getattr(p, '_parent', None)
    if isinstance(p, ast.For) and p.iter is node:
        return ('loop', None)
    if isinstance(p, ast.comprehension) and p.iter is node:
        return ('loop', 'comprehension')
    if isinstance(p, ast.YieldFrom):
        return ('delegate', None)
    if isinstance(p, ast.Return):
        return ('return', None)
    if isinstance(p, ast.Expr):
        return ('discard', None)
    if isinstance(p, ast.Starred):
        p2 = getattr(p, '_parent', None)
        return ('arg', norm(p2) if p2 is not None else '')
    if isinstance(p, ast.Call):
        return ('arg', norm(p.func))
    if isinstance(p, (ast.List, ast.Tuple, ast.ListComp)):
        # a local collection of generators: where does the collection go?
        return _sink(em, f, p)
    if isinstance(p, ast.Assign) and p.value is node:
        t = p.targets[0]
        if isinstance(t, ast.Name):
            if t.id in _declared(f, ast.Global):
                return ('global', t.id)
            if t.id in _declared(f, ast.Nonlocal):
                return ('nonlocal', t.id)
            return ('local', t.id)
        if isinstance(t, ast.Subscript) and isinstance(t.value, ast.Name):
            return ('element', t.value.id)
        if isinstance(t, ast.Attribute):
            return ('field', norm(t))
        if isinstance(t, ast.Subscript):
            return ('field', norm(t))
    return ('other', type(p).__name__ if p is not None else '')


def _declared(f, kind):
    out = set()
    for n in own_nodes(f.node):
        if isinstance(n, kind):
            out.update(n.names)
    return out


def _local_escapes(f, name):
    """does the local ``name`` get stored into a field/global/closure, or captured by a nested
    function?  -> text or None"""
    for n in own_nodes_ordered(f.node):
        if isinstance(n, ast.Assign) and any(is_name(x, name) for x in ast.walk(n.value) if not _in_call_func(x)):
            if _direct_value_mentions(n.value, name):
                for t in n.targets:
                    if isinstance(t, ast.Attribute) or (isinstance(t, ast.Subscript) and not isinstance(t.value, ast.Name)) \
                            or (isinstance(t, ast.Subscript) and isinstance(t.value, ast.Attribute)):
                        return norm(n)
                    if isinstance(t, ast.Name) and (t.id in _declared(f, ast.Global) or t.id in _declared(f, ast.Nonlocal)):
                        return norm(n)
        if isinstance(n, ast.Call) and isinstance(n.func, ast.Attribute) and n.func.attr in ('append', 'add', 'setdefault', 'insert', 'extend', 'update') \
                and isinstance(n.func.value, ast.Attribute) and any(_direct_value_mentions(a, name) for a in n.args):
            return norm(n)
    for nf in f.nested.values():
        for n in ast.walk(nf.node):
            if is_name(n, name) and name not in nf.all_params:
                return 'captured by nested function %s' % nf.name
    for n in own_nodes(f.node):
        if isinstance(n, ast.Lambda):
            for x in ast.walk(n):
                if is_name(x, name):
                    return 'captured by a lambda'
    return None


def _in_call_func(x):
    p = getattr(x, '_parent', None)
    return isinstance(p, ast.Call) and p.func is x


def _direct_value_mentions(e, name):
    """e is name, or a literal container/iter() wrapper mentioning it (not a call *on* it)"""
    if is_name(e, name):
        return True
    if isinstance(e, (ast.List, ast.Tuple, ast.Set)):
        return any(_direct_value_mentions(x, name) for x in e.elts)
    if isinstance(e, ast.Dict):
        return any(_direct_value_mentions(x, name) for x in e.values if x is not None)
    if isinstance(e, ast.Call) and is_name(e.func, 'iter') and e.args:
        return _direct_value_mentions(e.args[0], name)
    if isinstance(e, ast.Starred):
        return _direct_value_mentions(e.value, name)
    return False


def binder_calls(em, modules=('engine',)):
    out = []
    for f in em.repo.all_functions(modules):
        for call, callees in em.cg.calls.get(f, ()):
            if em.is_binder_call(f, call):
                out.append((f, call))
    return out


def rule_no_heap_escape(em, rep, rid):
    """U3: a generator that may hold bindings is consumed, delegated to, returned, or kept in a
    frame-local name/collection - never stored where it outlives the frame."""
    rep.rule(rid, 'every value produced by a call to a member of the binder family is looped over, delegated to '
                  '(yield from), returned, handed to iter/next/list, or kept in a frame-local name or collection that '
                  'does not itself escape; a store into a field, global, or closure is reported')
    fam = em.binder_family()
    rep.minimum('binder family (functions that bind, or return/delegate to one that does)', len(fam), 9)
    rep.analysed_add('binder family', sorted(x.qname for x in fam))
    calls = binder_calls(em)
    rep.minimum('calls producing binder generators', len(calls), 12)
    for f, call in calls:
        kind, info = _sink(em, f, call)
        key = '%s:%s' % (f.qname, norm(call))
        where = f.loc(call)
        if kind in ('field', 'global', 'nonlocal'):
            rep.violation(rid, key, 'a generator that may hold bindings is stored in %s: it outlives the query that '
                          'created it, so its bindings are not undone when that query ends' % (info,), where)
        elif kind in ('local', 'element'):
            esc = _local_escapes(f, info)
            if esc:
                rep.violation(rid, key, 'the generator kept in local %s escapes the frame: %s' % (info, esc), where)
            else:
                rep.ok(rid, key, 'kept in frame-local %s %s' % ('collection' if kind == 'element' else 'name', info), where)
        else:
            rep.ok(rid, key, 'sink: %s%s' % (kind, (' ' + info) if info else ''), where, nontrivial=kind != 'discard')


def rule_no_exception_capture(em, rep, rid):
    """U7: an exception caught while a query is running is not stored: its traceback keeps the
    frames of the suspended binder generators alive"""
    rep.rule(rid, 'no handler in the engine stores the exception object it caught in a field, global or container that '
                  'outlives the handler (the traceback references the generator frames whose finalisation undoes the bindings)')
    n = 0
    for f in em.repo.all_functions(('engine',)):
        for h in [x for x in own_nodes_ordered(f.node) if isinstance(x, ast.ExceptHandler) and x.name]:
            n += 1
            key = '%s:except %s as %s' % (f.qname, norm(h.type) if h.type else '', h.name)
            bad = None
            for s in h.body:
                for x in ast.walk(s):
                    if isinstance(x, ast.Assign) and any(is_name(y, h.name) for y in ast.walk(x.value)) and \
                            any(isinstance(t, (ast.Attribute, ast.Subscript)) for t in x.targets):
                        bad = x
                    if isinstance(x, ast.Assign) and any(is_name(y, h.name) for y in ast.walk(x.value)) and \
                            any(isinstance(t, ast.Name) and t.id in _declared(f, ast.Global) for t in x.targets):
                        bad = x
                    if isinstance(x, ast.Call) and isinstance(x.func, ast.Attribute) and x.func.attr in ('append', 'add', 'insert', 'setdefault') \
                            and isinstance(x.func.value, ast.Attribute) and any(is_name(y, h.name) for a in x.args for y in ast.walk(a)):
                        bad = x
                    if isinstance(x, ast.Return) and x.value is not None and any(is_name(y, h.name) for y in ast.walk(x.value)):
                        bad = x
            if bad is not None:
                rep.violation(rid, key, 'the caught exception is kept (%s): its traceback keeps the unwound query frames and the '
                              'suspended unification generators they hold alive, so variables stay bound after the query has ended' % norm(bad)[:60], f.loc(bad))
            else:
                rep.ok(rid, key, 'exception object does not outlive the handler', f.loc(h))
    rep.ok(rid, 'handlers', '%d named handlers examined' % n, None, nontrivial=False)


# ---------------------------------------------------------------------------------------------
# manual advance / exhaust-then-yield


def _base_name(e):
    while isinstance(e, (ast.Subscript, ast.Attribute)):
        e = e.value
    return e.id if isinstance(e, ast.Name) else None


def rule_manual_advance(em, rep, rid):
    """U4/H1: a binder advanced with next() stays open until the frame's next yield."""
    rep.rule(rid, 'in a generator, between next(G) on a binder G and every yield reachable from it, G is not closed, '
                  'deleted or overwritten (explicit close in a finally *after* the yield, or frame death, are both fine)')
    count = 0
    for f in em.repo.all_functions(('engine',)):
        if not f.is_generator:
            continue
        cfg = None
        for n in own_nodes_ordered(f.node):
            if not (isinstance(n, ast.Call) and is_name(n.func, 'next') and n.args):
                continue
            arg = n.args[0]
            base = _base_name(arg)
            if base is None:
                continue
            # is the thing advanced a binder?  look at what was assigned to base / its elements
            src = None
            for s in own_nodes(f.node):
                if isinstance(s, ast.Assign):
                    for t in s.targets:
                        if _base_name(t) == base:
                            for c in ast.walk(s.value):
                                if isinstance(c, ast.Call) and em.is_binder_call(f, c):
                                    src = c
            if src is None:
                # ... or put into the container the advanced element is taken from: base.append(iter(unify(..)))
                for c0 in own_nodes(f.node):
                    if isinstance(c0, ast.Call) and isinstance(c0.func, ast.Attribute) and c0.func.attr in ('append', 'insert', 'extend', 'add') and \
                            is_name(c0.func.value, base) and c0.args:
                        for c in ast.walk(c0.args[-1]):
                            if isinstance(c, ast.Call) and em.is_binder_call(f, c):
                                src = c
            if src is None:
                continue
            count += 1
            cfg = em.cfg(f)
            key = '%s:next(%s)' % (f.qname, norm(arg))
            starts = [m for m in em.nodes_for(f, n) if m.kind == 'call' and m.ast is n]

            # the generator object is also held by a local container: re-binding the name does not drop it
            kept = any(isinstance(c, ast.Call) and isinstance(c.func, ast.Attribute) and c.func.attr in ('append', 'add', 'insert')
                       and isinstance(c.func.value, ast.Name) and c.args and is_name(c.args[-1], base) for c in own_nodes(f.node))

            def kills(m, base=base, arg=arg, kept=kept):
                if m.kind == 'call' and isinstance(m.ast.func, ast.Attribute) and m.ast.func.attr == 'close' \
                        and _base_name(m.ast.func.value) == base:
                    return True
                if m.kind == 'del' and _base_name(m.ast) == base:
                    return True
                if m.kind == 'store' and is_name(m.ast, base) and not kept:
                    return True
                if m.kind == 'store' and isinstance(arg, ast.Name) is False and isinstance(m.ast, ast.Subscript) and False:
                    return True
                return False

            def edge_ok(lbl, a, b):
                return lbl not in ('exc', 'throw', 'close')
            bad = None
            for s in starts:
                # a path next -> kill -> yield
                for k in [m for m in cfg.g.reach([s], edge_ok=edge_ok) if kills(m)]:
                    p2 = cfg.g.find_path(k, lambda m: m.kind in ('yield', 'yieldfrom'), edge_ok=edge_ok)
                    if p2 is not None:
                        # the yield must also be reachable from next without... any such path is bad
                        p1 = cfg.g.find_path(s, lambda m: m is k, edge_ok=edge_ok)
                        bad = (p1 or []) + p2
                        break
                if bad:
                    break
            if bad:
                rep.violation(rid, key, 'the sub-generator advanced here is closed/dropped before the yield that follows: '
                              'its bindings are already undone when the caller looks at the answer', f.loc(n), cfg.describe_path(bad))
            else:
                rep.ok(rid, key, 'stays open until the yield', f.loc(n))
    rep.minimum('next()-advanced binders', count, 1)


def rule_no_exhaust_then_yield(em, rep, rid):
    """U5: answers are not yielded from a materialised copy of a binder's answer sequence, and a
    binder is not run to exhaustion in a silent loop before a yield."""
    rep.rule(rid, '(a) no loop with a yield in its body iterates list()/tuple()/sorted() of a binder call or a '
                  'comprehension over one; (b) in the flag-product CFG no yield is reachable after a loop over a binder '
                  'call has completed at least one iteration whose body did not yield')
    n_loops = 0
    for f in em.repo.all_functions(('engine',)):
        if not f.is_generator:
            continue
        cfg = em.cfg(f)
        mat_locals = {}
        for s in own_nodes_ordered(f.node):
            if isinstance(s, ast.Assign) and len(s.targets) == 1 and isinstance(s.targets[0], ast.Name):
                if _materialises_binder(em, f, s.value):
                    mat_locals[s.targets[0].id] = s
        for s in own_nodes_ordered(f.node):
            if not isinstance(s, ast.For):
                continue
            body_yields = any(isinstance(x, (ast.Yield, ast.YieldFrom)) for b in s.body for x in ast.walk(b))
            it = s.iter
            key = '%s:for %s in %s' % (f.qname, norm(s.target), norm(it))
            if body_yields and (_materialises_binder(em, f, it) or (isinstance(it, ast.Name) and it.id in mat_locals)):
                rep.violation(rid + 'a', key, 'answers are yielded while iterating a materialised copy of a query: the '
                              'bindings of each answer are gone by the time it is yielded', f.loc(s))
                continue
            if isinstance(it, ast.Call) and em.is_binder_call(f, it):
                n_loops += 1
                if body_yields:
                    rep.ok(rid + 'a', key, 'yields while the binder is suspended', f.loc(s))
                    continue
                # an aggregation (findall): the body harvests a value into a local container while the answer's
                # bindings are active; what is yielded afterwards is a fact about the collection, not the answer
                harvest = [x for b in s.body for x in ast.walk(b)
                           if (isinstance(x, ast.Call) and isinstance(x.func, ast.Attribute) and x.func.attr in ('append', 'extend', 'add', 'insert')
                               and isinstance(x.func.value, ast.Name) and x.args) or
                           (isinstance(x, ast.AugAssign) and isinstance(x.target, ast.Name))]
                if harvest:
                    rep.ok(rid + 'b', key, 'aggregation loop: a value is collected from every answer while it is bound', f.loc(s))
                    continue
                # (b) silent loop: product CFG
                pcfg = ProductCFG(cfg)
                heads = [st for st in pcfg.states if st[0].kind == 'fornext' and st[0].stmt is s]
                bad = None
                for h in heads:
                    # did at least one iteration complete?  = h entered through a 'loop' edge
                    if not any(lbl == 'loop' for lbl, _ in pcfg.g.pred.get(h, ())):
                        continue
                    ex = [m for lbl, m in pcfg.g.succ.get(h, ()) if lbl == 'exhausted']
                    for e in ex:
                        p = pcfg.g.find_path(e, lambda st: st[0].kind in ('yield', 'yieldfrom'),
                                             edge_ok=lambda lbl, a, b: lbl not in ('exc', 'throw', 'close'))
                        if p is not None:
                            bad = p
                            break
                    if bad:
                        break
                if bad:
                    rep.violation(rid + 'b', key, 'the loop runs the binder to exhaustion (its bindings are undone) and a '
                                  'yield follows: the answer is reported without its bindings', f.loc(s),
                                  ' ; '.join('L%d:%s' % (st[0].lineno, st[0].kind) for _, st in bad if st[0].kind != 'join'))
                else:
                    rep.ok(rid + 'b', key, 'no yield after a completed silent iteration', f.loc(s))
    rep.minimum('loops over binder calls in generators', n_loops, 4)


def _materialises_binder(em, f, e):
    if isinstance(e, ast.Call) and isinstance(e.func, ast.Name) and e.func.id in ('list', 'tuple', 'sorted', 'reversed') and e.args:
        a = e.args[0]
        if isinstance(a, ast.Call) and em.is_binder_call(f, a):
            return True
        return _materialises_binder(em, f, a)
    if isinstance(e, (ast.ListComp, ast.SetComp)):
        g = e.generators[0]
        if isinstance(g.iter, ast.Call) and em.is_binder_call(f, g.iter):
            # collecting the loop variable itself (the yielded flag) or nothing of the answer
            return True
    return False


# ---------------------------------------------------------------------------------------------
# at most one yield


def unifier_family(em):
    """functions that implement unification: methods named ``unify`` of term classes, the module
    function ``unify`` and the argument-list unifier they call"""
    out = []
    for c in em.repo.all_classes(('engine',)):
        if 'unify' in c.methods:
            out.append(c.methods['unify'])
    m = em.engine.functions.get('unify')
    if m is None:
        raise AnalysisError('anchor vanished: engine.unify')
    out.append(m)
    for f in list(out):
        for call, callees in em.cg.calls.get(f, ()):
            for c in callees:
                if c.module.name == 'engine' and c.cls is None and c not in out and c.is_generator:
                    out.append(c)
    return out


def _returns_once(em, g, fam, depth=0, allow_none=False):
    """a plain (non-generator) helper every return of which is an at-most-once iterator: a once/never iterator object, the
    result of a unifier, or of another such helper (a hook like ``_unify_same_name``); with allow_none also None"""
    if depth > 3 or g.is_generator:
        return False
    rets = [n for n in own_nodes_ordered(g.node) if isinstance(n, ast.Return)]
    if not rets:
        return False
    return all(_once_value(em, g, n.value, fam, depth, allow_none, n) for n in rets)


def _guarded_not_none(ret, name):
    """the return statement sits in the body of ``if <name> is not None:``"""
    child = ret
    for p in parents(ret):
        if isinstance(p, (ast.FunctionDef, ast.Lambda)):
            return False
        if isinstance(p, ast.If) and any(child is b for b in p.body) and isinstance(p.test, ast.Compare) and len(p.test.ops) == 1 \
                and isinstance(p.test.ops[0], ast.IsNot) and is_name(p.test.left, name) \
                and isinstance(p.test.comparators[0], ast.Constant) and p.test.comparators[0].value is None:
            return True
        child = p
    return False


def _once_value(em, g, v, fam, depth, allow_none, ret, seen=None):
    """the value is an at-most-once iterator: produced by a call of a unifier / once-or-never iterator class / helper that
    returns such values, possibly through locals; None only where the caller discards it (allow_none)"""
    seen = seen if seen is not None else set()
    if v is None or (isinstance(v, ast.Constant) and v.value is None):
        return allow_none
    if isinstance(v, ast.IfExp):
        return _once_value(em, g, v.body, fam, depth, allow_none, ret, seen) and _once_value(em, g, v.orelse, fam, depth, allow_none, ret, seen)
    if isinstance(v, ast.Name):
        if v.id in seen or v.id in g.all_params:
            return v.id in seen
        seen.add(v.id)
        defs = [s for s in own_nodes_ordered(g.node) if isinstance(s, ast.Assign) and any(is_name(t, v.id) for t in s.targets)]
        others = [s for s in own_nodes_ordered(g.node) if isinstance(s, ast.Name) and s.id == v.id and isinstance(s.ctx, ast.Store)]
        if not defs or len(others) != len([t for s in defs for t in s.targets if is_name(t, v.id)]):
            return False
        none_ok = allow_none or (ret is not None and _guarded_not_none(ret, v.id))
        return all(_once_value(em, g, s.value, fam, depth, none_ok, None, seen) for s in defs)
    if not isinstance(v, ast.Call):
        return False
    cs = em.cg.resolve_callable(g, v.func)
    if not cs:
        ci = em.cg.constructed_class(g, v)
        return ci is not None and iterator_class_kind(em, ci) in ('once', 'never')
    for c in cs:
        if c.name == '__init__' and c.cls is not None:
            if iterator_class_kind(em, c.cls) not in ('once', 'never'):
                return False
        elif c in fam or (c.cls and c.name == 'unify') or c in em.binder_family():
            continue
        elif not _returns_once(em, c, fam, depth + 1, allow_none):
            return False
    return True


def rule_at_most_one_yield(em, rep, rid):
    rep.rule(rid, 'in every member of the unifier family no path passes two yields; a yield inside a loop is allowed '
                  'only when the loop iterates a call to a family member (at most one iteration, by induction); iterator '
                  'classes returned as results succeed at most once')
    fam = unifier_family(em)
    rep.minimum('unifier family', len(fam), 3)
    for f in fam:
        rep.analysed_add('unifier family', f.qname)
        if not f.is_generator:
            # returns other generators / iterator objects: every return must be a call
            for n in own_nodes_ordered(f.node):
                if isinstance(n, ast.Return):
                    key = '%s:%s' % (f.qname, norm(n))
                    v = n.value
                    if isinstance(v, ast.Call):
                        cs = em.cg.resolve_callable(f, v.func)
                        okc = True
                        for c in cs:
                            if c.name == '__init__' and c.cls is not None:
                                kind = iterator_class_kind(em, c.cls)
                                if kind not in ('once', 'never'):
                                    okc = False
                            elif c not in fam and not (c.cls and 'unify' == c.name):
                                okc = okc and (c in em.binder_family() or _returns_once(em, c, fam))
                        if okc:
                            rep.ok(rid, key, 'delegates to %s' % ', '.join(sorted({c.qname for c in cs}) or [norm(v.func)]), f.loc(n))
                        else:
                            rep.violation(rid, key, 'returns an iterator that may succeed more than once', f.loc(n))
                    elif isinstance(v, ast.Name) and _once_value(em, f, v, fam, 0, False, n):
                        rep.ok(rid, key, 'a local that holds the result of unifier / once-iterator calls on every path', f.loc(n))
                    else:
                        rep.violation(rid, key, 'a unifier returns something that is not an iterator produced by a call', f.loc(n))
            continue
        cfg = em.cfg(f)
        # ``return <iterator>`` in a generator function does not delegate: the generator just ends and the solutions
        # of the returned iterator are never produced
        for n in own_nodes_ordered(f.node):
            if isinstance(n, ast.Return) and n.value is not None and not (isinstance(n.value, ast.Constant) and n.value.value is None):
                rep.violation(rid, '%s:%s' % (f.qname, norm(n)), 'this unifier is a generator function: "return %s" ends it without '
                              'producing the solutions of the returned value (the unification silently fails); it has to be '
                              'iterated or delegated to with yield from' % norm(n.value)[:40], f.loc(n))
        fam_loops = set()
        for s in own_nodes(f.node):
            if isinstance(s, ast.For) and isinstance(s.iter, ast.Call):
                cs = em.cg.resolve_callable(f, s.iter.func)
                if cs and all((c in fam) for c in cs):
                    fam_loops.add(s)
        yields = [n for n in cfg.nodes if n.kind in ('yield', 'yieldfrom')]
        for y in yields:
            key = '%s:%s@%d' % (f.qname, norm(y.ast), yields.index(y))
            if y.kind == 'yieldfrom':
                tgt = y.ast.value
                cs = em.cg.resolve_callable(f, tgt.func) if isinstance(tgt, ast.Call) else []
                if not (cs and all(c in fam for c in cs)):
                    rep.violation(rid, key, 'delegates to something that is not a unifier (may yield more than once)', f.loc(y.stmt))
                    continue
            second = _second_yield(cfg, y, fam_loops)
            if second is not None:
                rep.violation(rid, key, 'a second yield is reachable after this one: unification would succeed twice',
                              f.loc(y.stmt), cfg.describe_path(second))
            else:
                rep.ok(rid, key, 'no further yield reachable on resume', f.loc(y.stmt))
    # iterator classes
    for c in em.repo.all_classes(('engine',)):
        if '__next__' in c.methods:
            shared = None
            for k_ in em.repo.mro(c):
                if '__new__' in k_.methods:
                    shared = '%s.__new__ decides which object a construction returns' % k_.name
                it = k_.methods.get('__iter__')
                if it is not None and any(isinstance(n, ast.Attribute) and isinstance(n.ctx, ast.Store) for n in own_nodes(it.node)):
                    shared = shared or '%s.__iter__ resets the state of the object' % k_.name
            if shared:
                rep.violation(rid, c.qname + ':fresh', 'the result iterator of a unification is not an object of its own with a flag of its own '
                              '(%s): two unifications that are alive at the same time share one "already succeeded" flag, so one of '
                              'them succeeds twice or not at all' % shared, c.loc())
            k = iterator_class_kind(em, c)
            rep.ok(rid, c.qname, 'iterator class succeeds %s' % k, c.loc(), nontrivial=True) if k in ('once', 'never') else \
                rep.note(rid, 'iterator class %s may succeed more than once' % c.qname, c.loc())


def _second_yield(cfg, y, fam_loops):
    """path from the resume edge of y to any yield; a back edge into a loop over a unifier call
    continues at the loop's exhausted exit (such a loop iterates at most once)"""
    from collections import deque
    prev = {}
    dq = deque()
    for lbl, m in cfg.g.succ.get(y, ()):
        if lbl in ('throw', 'close'):
            continue
        dq.append((lbl, m, y))
    seen = set()
    while dq:
        lbl, m, src = dq.popleft()
        if lbl == 'loop' and m.kind == 'fornext' and m.stmt in fam_loops:
            for l2, k in cfg.g.succ.get(m, ()):
                if l2 == 'exhausted' and k not in seen:
                    dq.append((l2, k, src))
            continue
        if m in seen:
            continue
        seen.add(m)
        prev[m] = (src, lbl)
        if m.kind in ('yield', 'yieldfrom'):
            path = [(lbl, m)]
            cur = src
            while cur in prev and cur is not y:
                p, l = prev[cur]
                path.append((l, cur))
                cur = p
            path.reverse()
            return path
        for l2, k in cfg.g.succ.get(m, ()):
            if l2 in ('exc', 'throw', 'close'):
                continue
            dq.append((l2, k, m))
    return None


def rule_success_only_against_own_kind(em, rep, rid):
    rep.rule(rid, 'a term that is not a variable unifies with another non-variable term only of its own kind: in the unify method '
                  'of every term class other than the variable class (helpers pasted in), each place that creates a success - a '
                  'once-iterator object, or the argument-list unifier - is dominated by the true branch of isinstance(<other>, '
                  '<that class>); an atom that also succeeds against a string, a number or a compound term is reported')
    cell = em.cell()
    fam = unifier_family(em)
    arrays = [f for f in fam if f.cls is None and f.is_generator]
    n = 0
    for c in em.repo.instantiated():
        if c.module.name != 'engine' or c is cell.cls or 'to_python' not in {m for k in em.repo.mro(c) for m in k.methods}:
            continue
        u = em.repo.lookup_method(c, 'unify')
        if u is None or u.is_generator or u.module.name != 'engine':
            continue
        v = em.view(u, keep=tuple(arrays) + tuple(g for g in em.engine.functions.values() if g.name in ('unify', 'get_value')))
        cfg = em.cfg(v)
        dom = cfg.g.dominators(cfg.entry)
        own = {k.name for k in em.repo.all_classes(('engine',)) if c in em.repo.mro(k)}
        for m in cfg.nodes:
            if m.kind != 'call' or not isinstance(m.ast, ast.Call):
                continue
            call = m.ast
            ci = em.cg.constructed_class(v, call)
            is_success = ci is not None and iterator_class_kind(em, ci) == 'once'
            is_arrays = any(g in arrays for g in em.cg.resolve_callable(v, call.func))
            if not (is_success or is_arrays):
                continue
            n += 1
            key = '%s:%s' % (u.qname if u.cls is c else '%s(%s)' % (u.qname, c.name), norm(call)[:40])
            ok = False
            me = v.params[0] if v.params else 'self'
            def implied(e, lab):
                """the elementary tests (expr, outcome) that hold on the ``lab`` branch of test e"""
                while isinstance(e, ast.UnaryOp) and isinstance(e.op, ast.Not):
                    e, lab = e.operand, ('false' if lab == 'true' else 'true')
                if isinstance(e, ast.BoolOp) and ((isinstance(e.op, ast.And) and lab == 'true') or (isinstance(e.op, ast.Or) and lab == 'false')):
                    out = []
                    for x in e.values:
                        out.extend(implied(x, lab))
                    return out
                return [(e, lab)]

            def own_kind(e, outcome):
                if isinstance(e, ast.Call) and is_name(e.func, 'isinstance') and len(e.args) == 2:
                    if outcome != 'true':
                        return False
                    names = {x.id for x in ast.walk(e.args[1]) if isinstance(x, ast.Name)}
                    k_ = e.args[1]
                    if isinstance(k_, ast.Attribute) and is_name(k_.value, me):
                        # isinstance(other, self._kind): the class attribute as it is set for this class
                        names = set()
                        for st in em.engine.tree.body:
                            if isinstance(st, ast.Assign) and isinstance(st.value, ast.Name) and any(
                                    isinstance(t_, ast.Attribute) and t_.attr == k_.attr and is_name(t_.value, c.name) for t_ in st.targets):
                                names.add(st.value.id)
                        for kc in em.repo.mro(c):
                            if not names and isinstance(kc.class_attrs.get(k_.attr), ast.Name):
                                names.add(kc.class_attrs[k_.attr].id)
                    return bool(names) and names <= own
                if isinstance(e, ast.Compare) and len(e.ops) == 1 and isinstance(e.ops[0], (ast.Is, ast.IsNot)) and \
                        (is_name(e.left, me) or is_name(e.comparators[0], me)):
                    # the very same object is of the same class
                    return outcome == ('true' if isinstance(e.ops[0], ast.Is) else 'false')
                return False
            for t in dom[m]:
                if t.kind != 'test' or t.ast is None:
                    continue
                for lab in ('true', 'false'):
                    if any(own_kind(e, o) for e, o in implied(t.ast, lab)):
                        r = cfg.g.reach([cfg.entry], edge_ok=lambda lbl, a, b, t=t, lab=lab: not (a is t and lbl == lab))
                        if m not in r:
                            ok = True
            if ok:
                rep.ok(rid, key, 'only when the other term is a %s' % c.name, v.loc(call))
            else:
                rep.violation(rid, key, 'a %s can unify with something that is not a %s: this success is not confined to the branch '
                              'where the other (dereferenced) term is of the same class, so two syntactically different terms '
                              'unify' % (c.name, c.name), v.loc(call))
    if n == 0:
        # double dispatch: C.unify calls other.<hook>(self) and every class answers the hook; a success in C's answer to the
        # hook that only D.unify calls pairs a D with a C - it must be the same class
        hooks = {}
        for d in em.repo.instantiated():
            u = em.repo.lookup_method(d, 'unify') if d.module.name == 'engine' and d is not cell.cls else None
            if u is None or u.is_generator:
                continue
            for x in own_nodes(u.node):
                if isinstance(x, ast.Call) and isinstance(x.func, ast.Attribute) and len(x.args) == 1 and is_name(x.args[0], u.params[0]) and \
                        not is_name(x.func.value, u.params[0]):
                    hooks.setdefault(x.func.attr, set()).add(d)
        for c in em.repo.instantiated():
            if c.module.name != 'engine' or c is cell.cls:
                continue
            for hname, callers in hooks.items():
                m = em.repo.lookup_method(c, hname)
                if m is None or m.is_generator:
                    continue
                for x in own_nodes_ordered(m.node):
                    if not isinstance(x, ast.Call):
                        continue
                    ci = em.cg.constructed_class(m, x)
                    if (ci is not None and iterator_class_kind(em, ci) == 'once') or any(g in arrays for g in em.cg.resolve_callable(m, x.func)):
                        n += 1
                        key = '%s(%s):%s' % (m.qname, c.name, norm(x)[:40])
                        others = [d for d in callers if d is not c and c not in em.repo.mro(d) and d not in em.repo.mro(c)]
                        if others:
                            rep.violation(rid, key, 'a %s answers the hook %s, which %s.unify calls, with a success: a %s unifies with a %s'
                                          % (c.name, hname, others[0].name, others[0].name, c.name), m.loc(x))
                        else:
                            rep.ok(rid, key, 'reached only from %s.unify (double dispatch)' % c.name, m.loc(x))
    rep.minimum('success sites in the unify methods of non-variable term classes', n, 1)
    # compound terms: the two argument lists are handed to the argument-list unifier whole
    for c in em.repo.instantiated():
        if c.module.name != 'engine' or c is cell.cls:
            continue
        u = em.repo.lookup_method(c, 'unify')
        if u is None or u.is_generator or u.module.name != 'engine':
            continue
        v = em.view(u, keep=tuple(arrays) + tuple(g for g in em.engine.functions.values() if g.name in ('unify', 'get_value')))
        for call in [x for x in own_nodes_ordered(v.node) if isinstance(x, ast.Call) and any(g in arrays for g in em.cg.resolve_callable(v, x.func))]:
            key = '%s:%s' % (u.qname, norm(call)[:40])
            built = []
            for a in call.args:
                if isinstance(a, ast.Name) and a.id not in v.all_params:
                    defs = [s_ for s_ in own_nodes(v.node) if isinstance(s_, ast.Assign) and any(is_name(t, a.id) for t in s_.targets)]
                    if any(isinstance(d.value, (ast.ListComp, ast.List, ast.BinOp)) or
                           (isinstance(d.value, ast.Subscript) and isinstance(d.value.slice, ast.Slice)) for d in defs):
                        built.append(a.id)
                elif isinstance(a, (ast.ListComp, ast.List, ast.BinOp)) or (isinstance(a, ast.Subscript) and isinstance(a.slice, ast.Slice)):
                    built.append(norm(a)[:20])
            if built:
                rep.violation(rid, key, 'the argument-list unifier is given lists put together on the spot (%s) instead of the two terms\' '
                              'own argument lists: whatever is left out of them is not compared, so terms that differ there unify' % ', '.join(built), v.loc(call))
            else:
                rep.ok(rid, key, 'the terms\' own argument lists', v.loc(call))


def iterator_class_kind(em, c):
    """'never' (no path of __next__ returns), 'once' (flag protocol), 'many'"""
    nx = c.methods.get('__next__')
    if nx is None:
        return 'many'
    cfg = em.cfg(nx)
    rets = [n for n in cfg.nodes if n.kind == 'return'] + \
           ([cfg.exits['fall']] if 'fall' in cfg.exits and cfg.exits['fall'] in cfg.live else [])
    if not rets:
        return 'never'
    if nx.is_generator:
        return 'many'
    dom = cfg.g.dominators(cfg.entry)
    init = c.methods.get('__init__')
    for r in rets:
        ok = False
        for t in dom[r]:
            if t.kind != 'test':
                continue
            # flag test: self.F / not self.F
            e = t.ast
            neg = False
            if isinstance(e, ast.UnaryOp) and isinstance(e.op, ast.Not):
                e, neg = e.operand, True
            if not is_self_attr(e):
                continue
            flag = e.attr
            fresh_label = 'true' if neg else 'false'     # edge on which the flag is still False
            reach = cfg.g.reach([cfg.entry], edge_ok=lambda lbl, a, b, t=t, fl=fresh_label: not (a is t and lbl == fl))
            if r in reach:
                continue
            sets = [m for m in dom[r] if m.kind == 'store' and is_self_attr(m.ast, flag) and
                    isinstance(m.info, ast.Constant) and m.info.value is True]
            init_false = init is not None and any(
                isinstance(s, ast.Assign) and any(is_self_attr(x, flag) for x in s.targets) and
                isinstance(s.value, ast.Constant) and s.value.value is False for s in own_nodes(init.node))
            if sets and init_false:
                ok = True
        if not ok:
            return 'many'
    return 'once'


# ---------------------------------------------------------------------------------------------
# arity guard


def rule_arity_guard(em, rep, rid):
    rep.rule(rid, 'in the argument-list unifier a comparison len(a) != len(b) (or ==) dominates every element access and '
                  'its unequal side reaches the exit without a yield; one-sided comparisons (<, >, <=, >=) are reported')
    functor = em.repo.cls('engine', 'Functor')
    if em.repo.lookup_method(functor, 'unify') is None:
        raise AnalysisError('anchor vanished: Functor.unify')
    targets = []
    # wherever the class (or a base class it shares its unify with) hands the two argument lists to a function
    for k in em.repo.mro(functor):
        for fu in k.methods.values():
            for call, callees in em.cg.calls.get(fu, ()):
                if len([a for a in call.args if norm(a).endswith('._args')]) >= 2:
                    for c in callees:
                        if c not in targets:
                            targets.append(c)
    rep.minimum('argument-list unifiers called from Functor.unify', len(targets), 1)
    for f in targets:
        cfg = em.cfg(f)
        ps = f.params[1:] if f.is_method else f.params
        if len(ps) < 2:
            rep.violation(rid, f.qname, 'argument-list unifier does not take two sequences', f.loc())
            continue
        a, b = ps[0], ps[1]
        key = '%s:len(%s)/len(%s)' % (f.qname, a, b)
        dom = cfg.g.dominators(cfg.entry)
        guards = []
        for t in cfg.nodes:
            if t.kind != 'test':
                continue
            cmp_, neg = t.ast, False
            while isinstance(cmp_, ast.UnaryOp) and isinstance(cmp_.op, ast.Not):
                cmp_, neg = cmp_.operand, not neg
            if isinstance(cmp_, ast.Compare) and len(cmp_.ops) == 1:
                def side(e):
                    # a local assigned once, from len(<list>), stands for that length
                    if isinstance(e, ast.Name) and e.id not in f.all_params:
                        defs = [s_ for s_ in own_nodes(f.node) if isinstance(s_, ast.Assign) and any(is_name(t_, e.id) for t_ in s_.targets)]
                        stores = [x for x in own_nodes(f.node) if isinstance(x, ast.Name) and x.id == e.id and isinstance(x.ctx, ast.Store)]
                        if len(defs) == 1 and len(stores) == 1:
                            return norm(defs[0].value)
                    return norm(e)
                l, r = side(cmp_.left), side(cmp_.comparators[0])
                if {l, r} == {'len(%s)' % a, 'len(%s)' % b}:
                    guards.append((t, cmp_, neg))
        accesses = [n for n in cfg.nodes if any(isinstance(x, ast.Subscript) and is_name(x.value) and x.value.id in (a, b)
                                                for r_ in _node_exprs(n) for x in ast.walk(r_))]
        accesses += [n for n in cfg.nodes if n.kind in ('iter', 'call') and any(
            is_name(x) and x.id in (a, b) for r_ in _node_exprs(n) for x in ast.walk(r_)) and
            not (n.kind == 'call' and is_name(n.ast.func, 'len'))]
        yields = [n for n in cfg.nodes if n.kind in ('yield', 'yieldfrom')]
        good = None
        for t, cmp_, neg in guards:
            op = cmp_.ops[0]
            if isinstance(op, (ast.Lt, ast.Gt, ast.LtE, ast.GtE)):
                rep.violation(rid, key, 'the length comparison %s is one-sided: sequences of different length on the '
                              'uncovered side unify (f(a) = f(a,b))' % norm(t.ast), f.loc(t.stmt))
                good = False
                continue
            if not isinstance(op, (ast.NotEq, ast.Eq)):
                continue
            uneq = 'true' if isinstance(op, ast.NotEq) != neg else 'false'
            # unequal side: no yield and no element access reachable
            start = [m for lbl, m in cfg.g.succ.get(t, ()) if lbl == uneq]
            r = cfg.g.reach(start, include_starts=True, edge_ok=lambda lbl, x, y: lbl not in ('exc',))
            if any(n in r for n in yields):
                p = cfg.g.find_path(t, lambda m: m in yields, edge_ok=lambda lbl, x, y: not (x is t and lbl != uneq))
                rep.violation(rid, key, 'on the unequal-length side a yield is reachable', f.loc(t.stmt),
                              cfg.describe_path(p) if p else None)
                good = False
                continue
            if all(t in dom[n] for n in accesses + yields):
                if good is None:
                    good = True
        if good:
            rep.ok(rid, key, 'len != guard dominates %d element accesses and %d yield(s)' % (len(accesses), len(yields)), f.loc())
        elif good is None:
            rep.violation(rid, key, 'no comparison of the two lengths dominates the element-wise unification: argument '
                          'lists of different length may unify', f.loc())


def _node_exprs(n):
    out = []
    if n.ast is not None and n.kind not in ('exit', 'entry', 'join', 'handler'):
        out.append(n.ast)
    if n.kind == 'store' and isinstance(n.info, ast.AST) and not isinstance(n.info, ast.stmt):
        out.append(n.info)
    return out
