"""Layer D - the clause-level functions of the compiler, evaluated on a family of sample clauses.

``compile_function_body`` / ``compile_program`` are evaluated by the checker's own evaluator (sa/symex.py,
concrete arguments, the fields of the compiler object taken from its ``__init__``) on a fixed family of
clauses that puts every term class at every kind of position.  Nothing of the repository runs; what is
inspected is the code tree the source of the compiler *describes* for these clauses:

  D1  scope      every source variable is defined (alias ``V = argN`` or declaration ``V = variable()``)
                 exactly once, before its first use, outside every loop
  D2  head       every head position is either aliased or unified, never both; a variable is aliased at
                 most once; the unifications enclose exactly the code compile_body gives for the body
  D3  program    one function per (name, arity) key, parameters arg1..argN; its body is the concatenation,
                 in clause order, of what each clause compiles to on its own in a fresh compiler
                 (modulo the numbering of block labels): the code of a clause depends on that clause only
"""
from .model import AnalysisError
from .symex import SymEx, Sym, Const, New, ListV, DictV, CallV, PathState, SelfV, Opaque


class ClauseLab:
    def __init__(self, cm):
        self.cm = cm
        self.repo = cm.repo
        self.comp = cm.comp
        mods = ('yp_generator', 'yp_prolog_visitor')
        self.sx = SymEx(self.repo, inline=lambda f: f.module.name in mods and f.name != '_debug',
                        opaque=lambda n: False, max_depth=100000)
        self.sx.max_steps = 3000000
        for need in ('compile_program', 'compile_body', 'compile_expression'):
            if self.repo.lookup_method(self.comp, need) is None:
                raise AnalysisError('anchor vanished: YPPrologCompiler.%s' % need)

    # -- evaluation -----------------------------------------------------------------------
    def fresh(self):
        st = PathState()
        init = self.repo.lookup_method(self.comp, '__init__')
        if init is not None:
            outs = self.sx.run(init, [Sym('context')], st)
            if len(outs) != 1:
                raise AnalysisError('YPPrologCompiler.__init__ does not evaluate to one state')
            st = outs[0][0]
        return st

    def call(self, name, args, st=None):
        st = st if st is not None else self.fresh()
        m = self.repo.lookup_method(self.comp, name)
        outs = self.sx.run(m, args, st)
        if len(outs) != 1:
            raise AnalysisError('%s does not evaluate deterministically on a concrete clause (%d outcomes)' % (name, len(outs)))
        return outs[0]

    def program(self, prog):
        """compile_program on {(name, arity): [clauses]} -> list of (name text, parameter names, body statements) or a problem text"""
        d = DictV([[ListV([Const(k[0]), Const(k[1])], True), ListV([self.clause(c) for c in cl])] for k, cl in prog])
        st, res = self.call('compile_program', [d])
        if isinstance(res, CallV) and res.name == 'raise':
            return 'compile_program raises: %r' % (res.args,)
        if self.kind(res) != 'YPCodeProgram':
            return 'compile_program gives %r, not a program of functions' % (res,)
        fa = self.ctor_args(res)
        funcs = self.sx.as_sequence(fa[0]) if fa else None
        if funcs is None:
            return 'the functions of the program are %r' % (fa[0] if fa else None,)
        out = []
        for fn in funcs:
            if self.kind(fn) != 'YPCodeFunction':
                return 'an element of the program is %r' % (fn,)
            a = self.ctor_args(fn)
            body = self.sx.as_sequence(a[2])
            if body is None:
                return 'the body of a function is %r' % (a[2],)
            out.append((self.text(a[0]), [self.text(x) for x in (self.sx.as_sequence(a[1]) or [])], body))
        return out

    def clause_code(self, c):
        """the statements one clause compiles to (through compile_program, in a fresh compiler) or a problem text"""
        r = self.program([((c[0], len(c[1])), [c])])
        if isinstance(r, str):
            return r
        if len(r) != 1:
            return '%d functions for a program with one predicate' % len(r)
        return ListV(r[0][2])

    # -- sample terms ---------------------------------------------------------------------
    def C(self, name, *args):
        ci = self.cm._class(name)
        if ci is None:
            raise AnalysisError('anchor vanished: class %s' % name)
        return New(ci, list(args))

    def term(self, t):
        k = t[0]
        if k == 'v':
            return self.C('VariableTerm', Const(t[1]))
        if k == '_':
            return self.C('AnonymousVariableTerm', Const(t[1]))
        if k == 'a':
            return self.C('Atom', Const(t[1]))
        if k == 'n':
            return self.C('NumeralTerm', Const(t[1]))
        if k == 'f':
            return self.C('Functor', self.C('Atom', Const(t[1])), ListV([self.term(x) for x in t[2:]]))
        if k == 'l':
            return self.C('ListTerm', ListV([self.term(x) for x in t[1:]]))
        if k == 'lp':
            return self.C('ListPairTerm', self.term(t[1]), self.term(t[2]))
        raise AssertionError(t)

    def body(self, b):
        k = b[0]
        if k == 'call':
            return self.C('Predicate', self.term(('f',) + tuple(b[1:])))
        if k in ('true', 'fail', 'cut'):
            return self.C({'true': 'TruePredicate', 'fail': 'FailPredicate', 'cut': 'CutPredicate'}[k])
        cls = {'and': 'ConjunctionPredicate', 'or': 'DisjunctionPredicate', 'ifthen': 'IfThenPredicate', 'not': 'NegationPredicate'}[k]
        return self.C(cls, *[self.body(x) for x in b[1:]])

    def clause(self, c):
        name, args, body = c
        return self.C('Clause', self.C('Predicate', self.term(('f', name) + tuple(args))), self.body(body))

    # -- reading code trees ---------------------------------------------------------------
    def ctor_args(self, v):
        """constructor arguments in parameter order (keywords and defaults resolved)"""
        init = self.repo.lookup_method(v.cls, '__init__')
        if init is None:
            return list(v.args)
        ps = init.params[1:]
        out = list(v.args[:len(ps)])
        for i in range(len(out), len(ps)):
            if ps[i] in v.kwargs:
                out.append(v.kwargs[ps[i]])
            else:
                out.append(self.sx.new_field(v, ps[i]) or Const(None))
        return out

    def text(self, v):
        """the text a name-valued argument stands for (str() of a syntax-tree object)"""
        if isinstance(v, Const):
            return v.v if isinstance(v.v, str) else repr(v.v)
        if isinstance(v, New):
            m = self.repo.lookup_method(v.cls, '__str__')
            if m is not None:
                outs = self.sx.run(m, [v], PathState(), with_self=True)
                if len(outs) == 1 and isinstance(outs[0][1], Const):
                    return outs[0][1].v
        return repr(v)

    def kind(self, v):
        return v.cls.name if isinstance(v, New) else None

    def uses(self, v, acc):
        """names of the YPCodeVar nodes inside an expression"""
        if isinstance(v, New):
            if v.cls.name == 'YPCodeVar':
                acc.append(self.text(self.ctor_args(v)[0]))
                return acc
            for a in self.ctor_args(v):
                self.uses(a, acc)
        elif isinstance(v, ListV):
            for a in v.items:
                self.uses(a, acc)
        return acc

    def canon(self, v, labels):
        if isinstance(v, New):
            args = self.ctor_args(v)
            if v.cls.name in ('YPCodeBreakableBlock', 'YPCodeBreakBlock') and args:
                lab = self.text(args[0])
                labels.setdefault(lab, 'L%d' % (len(labels) + 1))
                return (v.cls.name, labels[lab]) + tuple(self.canon(a, labels) for a in args[1:])
            if v.cls.name == 'YPCodeVar':
                return ('YPCodeVar', self.text(args[0]))
            return (v.cls.name,) + tuple(self.canon(a, labels) for a in args)
        if isinstance(v, ListV):
            return ('list',) + tuple(self.canon(a, labels) for a in v.items)
        if isinstance(v, Const):
            return ('c', repr(v.v))
        return ('?', repr(v))


def show(c):
    def t(x):
        k = x[0]
        if k == 'v':
            return x[1]
        if k == '_':
            return '_'
        if k in ('a', 'n'):
            return x[1]
        if k == 'f':
            return '%s(%s)' % (x[1], ', '.join(t(y) for y in x[2:])) if len(x) > 2 else x[1]
        if k == 'l':
            return '[%s]' % ', '.join(t(y) for y in x[1:])
        if k == 'lp':
            return '[%s|%s]' % (t(x[1]), t(x[2]))

    def b(x):
        k = x[0]
        if k == 'call':
            return t(('f',) + tuple(x[1:]))
        if k in ('true', 'fail'):
            return k
        if k == 'cut':
            return '!'
        if k == 'not':
            return '\\+ ' + b(x[1])
        return '(%s %s %s)' % (b(x[1]), {'and': ',', 'or': ';', 'ifthen': '->'}[k], b(x[2]))
    name, args, body = c
    return '%s :- %s' % (t(('f', name) + tuple(args)), b(body))


def source_vars(c):
    """(variables of the head, variables of the body) of a sample clause, in order of occurrence"""
    def tv(x, acc):
        if x[0] == 'v':
            acc.append(x[1])
        elif x[0] == '_':
            acc.append('x%d' % (x[1] + 1))
        elif x[0] in ('f',):
            for y in x[2:]:
                tv(y, acc)
        elif x[0] in ('l', 'lp'):
            for y in x[1:]:
                tv(y, acc)
        return acc

    def bv(x, acc):
        if x[0] == 'call':
            for y in x[2:]:
                tv(y, acc)
        elif x[0] in ('and', 'or', 'ifthen', 'not'):
            for y in x[1:]:
                bv(y, acc)
        return acc
    name, args, body = c
    h = []
    for a in args:
        tv(a, h)
    return h, bv(body, [])


V = lambda n: ('v', n)
A = lambda n: ('a', n)

FAMILY = [
    ('p', (V('X'), V('Y')), ('and', ('call', 'q', V('X'), V('Z')), ('call', 'r', V('Z'), V('Y')))),
    ('p', (V('X'), V('X')), ('true',)),
    ('p', (V('X'), ('f', 'f', V('X')), V('Y')), ('call', 'q', V('Y'))),
    ('p', (V('X'), V('Y'), V('X'), V('W')), ('call', 'q', V('W'), V('Y'))),
    ('p', (A('a'), ('n', '1'), ('lp', V('H'), V('T')), ('l', V('A'), V('B')), ('_', 0), ('_', 1)),
     ('and', ('call', 'q', V('H')), ('and', ('not', ('call', 'r', V('T'), V('W'))),
                                       ('or', ('ifthen', ('call', 's', V('A')), ('call', 't', V('B'), V('U'))), ('call', 'u', ('_', 2)))))),
    ('p', (), ('and', ('call', 'q', V('X')), ('and', ('or', ('call', 'r', V('X')), ('call', 's', V('Y'))),
                                                   ('and', ('cut',), ('call', 't', ('l', V('X'), ('lp', V('Y'), V('Z')))))))),
    ('p', (('f', 'f', ('f', 'g', V('X')), V('Y')), V('Y')), ('call', '=', V('X'), V('Y'))),
    ('p', (V('X'),), ('true',)),
    ('p', (V('X'), ('l',)), ('ifthen', ('call', 'q', V('X'), ('f', 'h', V('V'), ('l', V('V2')))), ('call', 'r', ('lp', V('V'), A('nil'))))),
    ('p', (('_', 0), V('Y')), ('or', ('call', 'q', V('Y'), V('N')), ('and', ('not', ('call', 'r', V('M'))), ('fail',)))),
    ('p', (V('X'), V('X')), ('and', ('cut',), ('fail',))),            # 10: a neck cut that is only reached when the arguments unify
    ('p', (V('X'), A('a')), ('and', ('cut',), ('call', 'q', V('X')))),   # 11
    # 12: terms that print alike but are different terms (an atom spelled like a compound term, a number, a list, a variable)
    ('p', (A('f(a)'), ('f', 'f', A('a')), A('1'), ('n', '1'), A('[]'), ('l',), A('x1')),
     ('and', ('call', 'q', ('f', 'f', A('a')), A('f(a)'), ('_', 0)), ('call', 'r', ('n', '1'), A('1'), ('l',), A('[]'), A('g(X)'), ('f', 'g', V('X'))))),
    # 13-18: predicates of one program that call each other, some committed by cuts (what a whole-program analysis would look at)
    ('first', (V('X'),), ('and', ('call', 'q', V('X')), ('cut',))),
    ('pick', (V('X'),), ('call', 'first', V('X'))),
    ('user', (V('X'), V('Y')), ('and', ('call', 'r', V('Y')), ('call', 'pick', V('X')))),
    ('det', (V('X'),), ('and', ('call', 'a', V('X')), ('cut',))),
    ('det', (V('X'),), ('and', ('call', 'b', V('Y')), ('call', 'first', V('X')))),
    ('big', (A('k'), V('X')), ('and', ('call', 'a', V('X')), ('and', ('cut',), ('call', 'b', V('X'))))),
    # 19-22: ground facts of one predicate with a rule and a non-ground fact between them (clause order is answer order)
    ('n', (('n', '1'), A('a')), ('true',)),
    ('n', (V('X'), A('b')), ('call', 'm', V('X'))),
    ('n', (('n', '2'), A('c')), ('true',)),
    ('n', (V('Y'), V('Y')), ('true',)),
]


def _stmts(lab, code, env, problems, where, in_loop, defs, srcvars):
    """walk a statement list in execution order; env = names defined on every path so far"""
    env = set(env)
    if not isinstance(code, ListV):
        problems.append('%s: a statement list is %r' % (where, code))
        return env
    for s in code.items:
        k = lab.kind(s)
        a = lab.ctor_args(s) if isinstance(s, New) else []
        if k == 'YPCodeAssign':
            for u in lab.uses(a[1], []):
                if u in srcvars and u not in env:
                    problems.append('the variable %s is used (in the definition of %s) before it is defined' % (u, lab.text(lab.ctor_args(a[0])[0]) if lab.kind(a[0]) == 'YPCodeVar' else '?'))
            if lab.kind(a[0]) == 'YPCodeVar':
                name = lab.text(lab.ctor_args(a[0])[0])
                if name in srcvars:
                    defs.setdefault(name, []).append((in_loop, a[1]))
                    if name in env:
                        problems.append('the variable %s is defined a second time: the binding made before is lost' % name)
                env.add(name)
        elif k == 'YPCodeForeach':
            for u in lab.uses(a[0], []):
                if u in srcvars and u not in env:
                    problems.append('the variable %s is used in %s before it is defined (NameError, or the variable of another activation)' % (u, _calltext(lab, a[0])))
            _stmts(lab, a[1], env, problems, where, True, defs, srcvars)
        elif k == 'YPCodeIf':
            for u in lab.uses(a[0], []):
                if u in srcvars and u not in env:
                    problems.append('the variable %s is used in a condition before it is defined' % u)
            _stmts(lab, a[1], env, problems, where, in_loop, defs, srcvars)
            _stmts(lab, a[2], env, problems, where, in_loop, defs, srcvars)
        elif k == 'YPCodeBreakableBlock':
            _stmts(lab, a[1], env, problems, where, in_loop, defs, srcvars)
        elif k in ('YPCodeYieldFalse', 'YPCodeYieldTrue', 'YPCodeYieldBreak', 'YPCodeBreakBlock'):
            pass
        elif k is None:
            problems.append('%s: a statement is %r' % (where, s))
        else:
            for u in lab.uses(s, []):
                if u in srcvars and u not in env:
                    problems.append('the variable %s is used before it is defined' % u)
    return env


def _calltext(lab, call):
    if lab.kind(call) == 'YPCodeCall':
        a = lab.ctor_args(call)
        return '%s(...)' % lab.text(a[0])
    return 'a loop expression'


def rule_clause_scope(cm, rep, rid):
    rep.rule(rid, 'compile_function_body, evaluated by the checker on a family of sample clauses (every term class in head and '
                  'body positions, repeated and anonymous variables, control constructs): in the code it describes every source '
                  'variable is defined exactly once - as an alias of a parameter or as a fresh variable() - before its first use and '
                  'outside every loop, so each activation of the clause has its own variables and none is used undeclared')
    lab = ClauseLab(cm)
    f = cm.comp.methods['compile_program']
    n = 0
    for c in FAMILY:
        key = 'clause:%s' % show(c)
        code = lab.clause_code(c)
        if isinstance(code, str):
            rep.violation(rid, key, code, f.loc())
            continue
        hv, bv = source_vars(c)
        srcvars = set(hv) | set(bv)
        problems, defs = [], {}
        arity = len(c[1])
        env = _stmts(lab, code, {'arg%d' % (i + 1) for i in range(arity)}, problems, show(c), False, defs, srcvars)
        for v in sorted(srcvars):
            if v not in defs:
                problems.append('the variable %s is never defined in the code of the clause' % v)
            elif any(loop for loop, _ in defs[v]):
                problems.append('the variable %s is created inside a loop, not once per activation' % v)
        n += 1
        if problems:
            rep.violation(rid, key, '; '.join(sorted(set(problems))[:3]), f.loc())
        else:
            rep.ok(rid, key, '%d source variables, each defined once before use' % len(srcvars), f.loc())
    rep.minimum('sample clauses evaluated', n, 8)


def rule_term_code_denotes_term(cm, rep, rid):
    rep.rule(rid, 'the code compile_expression gives for a term constructs that very term and nothing is looked up elsewhere: '
                  'atom(<the name>) / functor(<name>, [..]) / makelist([..]) / listpair(h, t) / the number / the variable of '
                  'that name (ATOM_NIL for []) - a name that has to be resolved somewhere else (a module constant, a table) is '
                  'reported, since two different terms may then be given one name; decided on the terms of the sample clauses')
    lab = ClauseLab(cm)
    f = cm.comp.methods['compile_expression']

    def denote(code):
        k = lab.kind(code)
        a = lab.ctor_args(code) if isinstance(code, New) else []
        if k == 'YPCodeVar':
            n = lab.text(a[0])
            return ('a', '[]') if n == 'ATOM_NIL' else ('v', n)
        if k == 'YPCodeValue':
            return ('n', lab.text(a[0]))
        if k == 'YPCodeCall':
            fn = lab.text(a[0])
            args = lab.sx.as_sequence(a[1]) if len(a) > 1 else None
            if args is None:
                return ('?', 'call of %s with %r' % (fn, a[1:] and a[1]))
            if fn == 'atom' and len(args) == 1 and lab.kind(args[0]) == 'YPCodeExpr':
                return ('a', lab.text(lab.ctor_args(args[0])[0]))
            if fn == 'functor' and len(args) == 2 and lab.kind(args[0]) == 'YPCodeExpr' and lab.kind(args[1]) == 'YPCodeList':
                items = lab.sx.as_sequence(lab.ctor_args(args[1])[0])
                if items is not None:
                    return ('f', lab.text(lab.ctor_args(args[0])[0])) + tuple(denote(x) for x in items)
            if fn == 'makelist' and len(args) == 1 and lab.kind(args[0]) == 'YPCodeList':
                items = lab.sx.as_sequence(lab.ctor_args(args[0])[0])
                if items is not None:
                    return ('l',) + tuple(denote(x) for x in items)
            if fn == 'listpair' and len(args) == 2:
                return ('lp', denote(args[0]), denote(args[1]))
            return ('?', 'call of %s' % fn)
        return ('?', repr(code)[:40])

    def want(t):
        k = t[0]
        if k == 'v':
            return ('v', t[1])
        if k == '_':
            return ('v', 'x%d' % (t[1] + 1))
        if k == 'a':
            return ('a', t[1])
        if k == 'n':
            return ('n', t[1])
        if k == 'f':
            return ('f', t[1]) + tuple(want(x) for x in t[2:])
        if k == 'l':
            return ('l',) + tuple(want(x) for x in t[1:]) if len(t) > 1 else ('a', '[]')
        if k == 'lp':
            return ('lp', want(t[1]), want(t[2]))
        raise AssertionError(t)

    def unknown(d):
        if d[0] == '?':
            return d[1]
        for x in d[1:]:
            if isinstance(x, tuple):
                u = unknown(x)
                if u:
                    return u
        return None

    def strip_vars(d, names):
        # variable names may be decorated by the compiler, consistently
        if d[0] == 'v':
            return ('v', names.setdefault(d[1], len(names)))
        return tuple(strip_vars(x, names) if isinstance(x, tuple) else x for x in d)
    terms = []

    def collect_body(b):
        if b[0] == 'call':
            terms.extend(b[2:])
        elif b[0] in ('and', 'or', 'ifthen', 'not'):
            for y in b[1:]:
                collect_body(y)
    for c in FAMILY:
        terms.extend(c[1])
        collect_body(c[2])
    seen = set()
    n = 0
    for t in terms:
        if t in seen or t[0] == '_':
            continue
        seen.add(t)
        n += 1
        key = 'term:%s' % show(('', (t,), ('true',)))[1:].split(' :-')[0][:-1]
        try:
            st2, code = lab.call('compile_expression', [lab.term(t)])
        except AnalysisError as e:
            rep.violation(rid, key, 'compile_expression cannot be evaluated on this term: %s' % e, f.loc())
            continue
        got = denote(code)
        if unknown(got):
            rep.violation(rid, key, 'the code for this term is not a construction of the term (%s)' % unknown(got), f.loc())
        elif strip_vars(got, {}) != strip_vars(want(t), {}):
            rep.violation(rid, key, 'the code for this term constructs %r: a different term, or a name that is resolved elsewhere in '
                          'place of the term itself' % (got,), f.loc())
        else:
            rep.ok(rid, key, 'constructs the term itself', f.loc())
    rep.minimum('sample terms', n, 15)


def rule_clause_head(cm, rep, rid):
    rep.rule(rid, 'in the code compile_function_body describes for the sample clauses, every head position N is handled exactly '
                  'once: either the argument is a variable aliased to argN (a variable is aliased at most once, so p(X, X) still '
                  'compares its arguments) or unify(argN, <the compiled argument>) encloses the body; inside the unifications is '
                  'exactly the code compile_body gives for the body of the clause')
    lab = ClauseLab(cm)
    f = cm.comp.methods['compile_program']
    n = 0
    for c in FAMILY:
        key = 'clause:%s' % show(c)
        code = lab.clause_code(c)
        if isinstance(code, str):
            rep.violation(rid, key, code, f.loc())
            continue
        name, args, body = c
        hv, _ = source_vars(c)
        problems = []
        aliased = {}        # position -> variable
        alias_of = {}
        rest = []
        for s in code.items:
            a = lab.ctor_args(s) if isinstance(s, New) else []
            if lab.kind(s) == 'YPCodeAssign' and lab.kind(a[1]) == 'YPCodeVar' and lab.kind(a[0]) == 'YPCodeVar':
                tgt = lab.text(lab.ctor_args(a[0])[0])
                src = lab.text(lab.ctor_args(a[1])[0])
                if src.startswith('arg') and src[3:].isdigit():
                    pos = int(src[3:]) - 1
                    if pos in aliased:
                        problems.append('parameter %s is aliased twice' % src)
                    aliased[pos] = tgt
                    alias_of.setdefault(tgt, []).append(pos)
                    continue
            if lab.kind(s) == 'YPCodeAssign':
                continue
            rest.append(s)
        unified = {}
        cur = rest
        while len(cur) == 1 and lab.kind(cur[0]) == 'YPCodeForeach':
            a = lab.ctor_args(cur[0])
            call = a[0]
            ca = lab.ctor_args(call) if lab.kind(call) == 'YPCodeCall' else []
            if not (ca and lab.text(ca[0]) == 'unify' and isinstance(ca[1], ListV) and len(ca[1].items) == 2 and
                    lab.kind(ca[1].items[0]) == 'YPCodeVar'):
                break
            pname = lab.text(lab.ctor_args(ca[1].items[0])[0])
            if not (pname.startswith('arg') and pname[3:].isdigit()):
                break
            pos = int(pname[3:]) - 1
            if pos in unified:
                problems.append('parameter %s is unified twice' % pname)
            unified[pos] = ca[1].items[1]
            cur = a[1].items if isinstance(a[1], ListV) else []
        # positions
        for i, t in enumerate(args):
            if i in aliased and i in unified:
                problems.append('head position %d is both aliased and unified' % (i + 1))
            elif i in aliased:
                tn = t[1] if t[0] == 'v' else 'x%d' % (t[1] + 1) if t[0] == '_' else None
                if aliased[i] != tn:
                    problems.append('arg%d is aliased to %s, but the head argument there is %s' % (i + 1, aliased[i], show(('', (t,), ('true',)))[1:].split(' :-')[0]))
            elif i in unified:
                st2, want = lab.call('compile_expression', [lab.term(t)])
                if lab.canon(want, {}) != lab.canon(unified[i], {}):
                    problems.append('arg%d is unified with something else than its head argument' % (i + 1))
            else:
                problems.append('head position %d is neither aliased nor unified: the argument of the call is ignored' % (i + 1))
        for i in list(aliased) + list(unified):
            if i >= len(args) or i < 0:
                problems.append('arg%d is bound, but the head has %d arguments' % (i + 1, len(args)))
        for v, ps in alias_of.items():
            if len(ps) > 1:
                problems.append('the variable %s is aliased to %d parameters: the head no longer requires them to be equal' % (v, len(ps)))
            if hv.count(v) > 1 and [t for t in args if t == ('v', v)] and len([t for t in args if t == ('v', v)]) > 1:
                problems.append('the variable %s occurs %d times as a head argument and is aliased instead of unified' % (v, hv.count(v)))
        # the body code
        st3, want = lab.call('compile_body', [lab.body(body)])
        if lab.canon(ListV(cur), {}) != lab.canon(want, {}):
            problems.append('the code inside the head unifications is not what compile_body gives for the body of the clause')
        n += 1
        if problems:
            rep.violation(rid, key, '; '.join(sorted(set(problems))[:3]), f.loc())
        else:
            rep.ok(rid, key, '%d aliased, %d unified position(s) around the body code' % (len(aliased), len(unified)), f.loc())
    rep.minimum('sample clauses evaluated', n, 8)


PROGRAMS = [
    [(('p', 2), [0, 1]), (('q', 1), [7])],
    [(('p', 2), [1, 0, 1])],
    [(('p', 0), [5, 5]), (('p', 2), [8, 9, 8])],
    [(('p', 6), [4, 4]), (('p', 3), [2])],
    [(('p', 2), [10, 0, 11, 1])],
    [(('p', 7), [12, 12])],
    [(('first', 1), [13]), (('pick', 1), [14]), (('user', 2), [15]), (('det', 1), [16, 17])],
    [(('big', 2), [18] * 60), (('first', 1), [13])],
    [(('n', 2), [19, 20, 21, 22, 19, 21])],
]


def rule_program_structure(cm, rep, rid):
    rep.rule(rid, 'compile_program, evaluated by the checker on sample programs, describes one YPCodeFunction per (name, arity) '
                  'key, named after the key, with the parameters arg1..argN the clause code refers to; its body is the '
                  'concatenation, in clause order, of the code each clause compiles to on its own in a fresh compiler (modulo the '
                  'numbering of block labels): what a clause compiles to does not depend on the clauses compiled before it')
    lab = ClauseLab(cm)
    f = cm.comp.methods['compile_program']
    n = 0
    solo = {}
    for i, c in enumerate(FAMILY):
        solo[i] = lab.clause_code(c)
    for prog in PROGRAMS:
        key = 'program:' + ' '.join('%s/%d x%d' % (k[0], k[1], len(cl)) for k, cl in prog)
        funcs = lab.program([(k, [FAMILY[i] for i in cl]) for k, cl in prog])
        problems = []
        if isinstance(funcs, str):
            rep.violation(rid, key, funcs, f.loc())
            continue
        if len(funcs) != len(prog):
            problems.append('%d function(s) for %d predicate key(s)' % (len(funcs), len(prog)))
        for (k, cl), (fname, params, body) in zip(prog, funcs):
            if fname != k[0]:
                problems.append('the function for %s/%d is named %s' % (k[0], k[1], fname))
            if params != ['arg%d' % (j + 1) for j in range(k[1])]:
                problems.append('the function for %s/%d has the parameters %s, the clause code refers to arg1..arg%d' % (k[0], k[1], params, k[1]))
            pos = 0
            for idx, ci in enumerate(cl):
                want = solo[ci]
                if not isinstance(want, ListV):
                    continue
                seg = body[pos:pos + len(want.items)]
                pos += len(want.items)
                if lab.canon(ListV(seg), {}) != lab.canon(want, {}):
                    problems.append('clause %d of %s/%d (%s) compiles to different code after %d other clause(s) than on its own: '
                                    'the code of a clause depends on the clauses before it, or clauses are not emitted in source order' % (
                                        idx + 1, k[0], k[1], show(FAMILY[ci]), idx))
                    break
            else:
                if pos != len(body):
                    problems.append('the function for %s/%d holds %d statement(s) more than its clauses compile to' % (k[0], k[1], len(body) - pos))
        n += 1
        if problems:
            rep.violation(rid, key, '; '.join(problems[:3]), f.loc())
        else:
            rep.ok(rid, key, '%d function(s), bodies are the per-clause code in clause order' % len(funcs), f.loc())
    rep.minimum('sample programs evaluated', n, 3)


LATE_FAMILY = [
    ('p', (V('X'),), ('and', ('call', 'q', V('X')), ('call', 'p', V('X')))),
    ('p', (V('X'),), ('or', ('call', 'p', ('f', 'f', V('X'))), ('ifthen', ('call', 'q', V('X')), ('call', 'r')))),
    ('q', (A('a'),), ('not', ('call', 'p', A('a')))),
    # = goals on variables that are not mentioned before, inside alternatives and conditions
    ('t', (V('R'),), ('and', ('or', ('and', ('call', '=', V('X'), A('a')), ('call', 'q', V('X'))), ('call', 'q', V('X'))), ('call', '=', V('R'), V('X')))),
    ('u', (V('R'),), ('and', ('call', '=', V('T'), ('f', 'pair', V('A'), V('B'))), ('and', ('call', '=', V('A'), ('n', '1')),
                                                                                      ('and', ('ifthen', ('call', '=', V('B'), ('n', '2')), ('true',)), ('call', '=', V('R'), V('T')))))),
]


def _calls(lab, code, acc):
    if isinstance(code, ListV):
        for s in code.items:
            _calls(lab, s, acc)
    elif isinstance(code, New):
        a = lab.ctor_args(code)
        if code.cls.name == 'YPCodeForeach':
            acc.append(a[0])
        for x in a:
            if isinstance(x, (ListV, New)) and not (code.cls.name == 'YPCodeForeach' and x is a[0]):
                _calls(lab, x, acc)
    return acc


def rule_calls_late_bound(cm, rep, rid):
    rep.rule(rid, 'in the code compile_program describes for sample programs (including recursive and mutually recursive '
                  'predicates of the same program), every goal is a loop over query(<name string>, [arguments]) and every head '
                  'unification a loop over unify(...): the callee is looked up by name when the call is made, never bound to '
                  'a function of the program being compiled')
    lab = ClauseLab(cm)
    f = cm.comp.methods['compile_program']
    prog = [(('p', 1), [LATE_FAMILY[0], LATE_FAMILY[1]]), (('q', 1), [LATE_FAMILY[2]]), (('t', 1), [LATE_FAMILY[3]]), (('u', 1), [LATE_FAMILY[4]])]
    funcs = lab.program(prog)
    if isinstance(funcs, str):
        rep.violation(rid, 'program:p/1 q/1', funcs, f.loc())
        return
    n = 0

    def goals(b, acc):
        if b[0] == 'call':
            acc.append(b)
        elif b[0] in ('and', 'or', 'ifthen', 'not'):
            for y in b[1:]:
                goals(y, acc)
        return acc
    for (k, cl), (fname, params, body) in zip(prog, funcs):
        # every goal of the source is there as a loop over query(<its name>, [<its arguments>]): none is replaced by something
        # that is not undone on backtracking (an assignment), none is dropped
        have = set()
        for call in _calls(lab, ListV(body), []):
            a = lab.ctor_args(call) if lab.kind(call) == 'YPCodeCall' else None
            args = a[1].items if a and isinstance(a[1], ListV) else []
            if a and lab.text(a[0]) == 'query' and len(args) == 2 and lab.kind(args[0]) == 'YPCodeExpr' and lab.kind(args[1]) == 'YPCodeList':
                have.add((lab.text(lab.ctor_args(args[0])[0]), repr(lab.canon(lab.ctor_args(args[1])[0], {}))))
        for c in cl:
            for g in goals(c[2], []):
                try:
                    want_args = ListV([lab.call('compile_expression', [lab.term(t)])[1] for t in g[2:]])
                except AnalysisError:
                    continue
                if (g[1], repr(lab.canon(want_args, {}))) not in have:
                    rep.violation(rid, '%s:goal %s' % (fname, show(('', (), g))[6:]), 'the clause %s contains this goal, but the code has no loop '
                                  'over query(%r, [its arguments]): the goal is compiled to something else (an assignment is not undone '
                                  'when the alternative it stands in fails) or left out' % (show(c), g[1]), f.loc())
    for fname, params, body in funcs:
        for call in _calls(lab, ListV(body), []):
            n += 1
            a = lab.ctor_args(call) if lab.kind(call) == 'YPCodeCall' else None
            fn = lab.text(a[0]) if a else None
            args = a[1].items if a and isinstance(a[1], ListV) else []
            key = '%s:%s(...)' % (fname, fn)
            if fn == 'unify' and len(args) == 2:
                rep.ok(rid, key, 'head unification', f.loc())
            elif fn == 'query' and len(args) == 2 and lab.kind(args[0]) == 'YPCodeExpr' and isinstance(lab.ctor_args(args[0])[0], Const) and \
                    isinstance(lab.ctor_args(args[0])[0].v, str) and lab.kind(args[1]) == 'YPCodeList':
                rep.ok(rid, '%s:query(%r, ...)' % (fname, lab.ctor_args(args[0])[0].v), 'resolved by name at call time', f.loc())
            else:
                rep.violation(rid, key, 'a goal of the clause is compiled to a loop over %s(%s) instead of query(name, arguments): the call is '
                              'bound when the script is compiled or loaded, not when it is made - later loads, registrations and '
                              'dynamic facts for that predicate are not seen' % (fn, ', '.join(lab.kind(x) or repr(x) for x in args)), f.loc())
    rep.minimum('goal and unification loops in the sample program', n, 6)


# ---------------------------------------------------------------------------------------------
# the visitor's grouping of clauses


class _Ctx:
    """stand-in for the ANTLR context of a program: clauseordirective() gives the child contexts in source order"""

    def __init__(self, children):
        self.children = children

    def __repr__(self):
        return 'ctx'


def rule_program_grouping(cm, rep, rid):
    rep.rule(rid, 'visitProgram, evaluated by the checker on a sample sequence of clauses (two predicates whose clauses are '
                  'interleaved, one name with two arities), returns a dictionary in which every clause occurs exactly once, under '
                  '(head name, number of head arguments), the clauses of a key in source order and the keys in order of first '
                  'occurrence - nothing is dropped, merged or reordered when the clauses of a predicate are not adjacent')
    lab = ClauseLab(cm)
    vis = cm.repo.cls('yp_prolog_visitor', 'YPPrologVisitor')
    vp = cm.repo.lookup_method(vis, 'visitProgram')
    if vp is None:
        raise AnalysisError('anchor vanished: YPPrologVisitor.visitProgram')
    sample = [('colour', (A('red'),), ('true',)), ('colour', (A('green'),), ('true',)), ('shape', (A('square'),), ('true',)),
              ('colour', (A('blue'),), ('true',)), ('colour', (A('a'), A('b')), ('true',)), ('shape', (V('X'),), ('call', 'q', V('X'))),
              ('colour', (A('last'),), ('true',))]
    clauses = [lab.clause(c) for c in sample]
    kids = [Sym('child%d' % i) for i in range(len(sample))]
    ctx = _Ctx(kids)

    class SX(SymEx):
        def attr(self, b, name, st, func, node):
            if isinstance(b, _Ctx):
                return ('ctxcall', name)
            return SymEx.attr(self, b, name, st, func, node)

        def apply(self, e, f, args, kw, st, func):
            if isinstance(f, tuple) and f[0] == 'ctxcall':
                if f[1] == 'clauseordirective':
                    if not args:
                        return [(st, ListV(list(kids)))]
                    if isinstance(args[0], Const) and isinstance(args[0].v, int) and 0 <= args[0].v < len(kids):
                        return [(st, kids[args[0].v])]
                return [(st, CallV(f[1], args, node=e))]
            if isinstance(f, tuple) and f[0] == 'bound' and f[1].name in ('visitClauseordirective', 'visitClause', 'visit') and args and \
                    isinstance(args[0], Sym) and args[0] in kids:
                return [(st, clauses[kids.index(args[0])])]
            return SymEx.apply(self, e, f, args, kw, st, func)
    mods = ('yp_generator', 'yp_prolog_visitor')
    sx = SX(cm.repo, inline=lambda f: f.module.name in mods and f.name != '_debug', opaque=lambda n: False, max_depth=1000)
    st = PathState()
    outs = sx.run(vp, [ctx], st)
    key = 'visitProgram:sample of %d clauses' % len(sample)
    ok_outs = [(s, v) for s, v in outs if not (isinstance(v, CallV) and v.name == 'raise')]
    if len(ok_outs) != 1 or not isinstance(ok_outs[0][1], DictV):
        raise AnalysisError('visitProgram does not evaluate to one dictionary on the sample program (%d outcomes: %s)' % (
            len(outs), ', '.join(repr(v)[:60] for _, v in outs[:3])))
    d = ok_outs[0][1]
    want = {}
    for i, c in enumerate(sample):
        want.setdefault((c[0], len(c[1])), []).append(i)
    got = {}
    problems = []
    for k, v in d.pairs:
        kk = None
        seq = sx.as_sequence(k)
        if seq is not None and len(seq) == 2 and isinstance(seq[0], Const) and isinstance(seq[1], Const):
            kk = (seq[0].v, seq[1].v)
        items = sx.as_sequence(v)
        if kk is None or items is None:
            problems.append('an entry of the program dictionary is %r: %r' % (k, v))
            continue
        got[kk] = [next((i for i, c in enumerate(clauses) if c is x), None) for x in items]
    for k, idx in want.items():
        if k not in got:
            problems.append('no entry for %s/%d' % k)
        elif got[k] != idx:
            lost = [i for i in idx if i not in got[k]]
            if lost:
                problems.append('%s/%d loses clause(s) %s of the source (%s): a predicate whose clauses are not adjacent keeps only part of them' % (
                    k[0], k[1], ', '.join(str(i + 1) for i in lost), '; '.join(show(sample[i]) for i in lost)))
            else:
                problems.append('%s/%d holds its clauses in the order %s instead of source order %s' % (k[0], k[1], [i + 1 for i in got[k]], [i + 1 for i in idx]))
    for k in got:
        if k not in want:
            problems.append('an entry %r that no clause head has' % (k,))
    if not problems and list(got) != list(want):
        problems.append('the keys come in the order %s, not in order of first occurrence %s' % (list(got), list(want)))
    if problems:
        rep.violation(rid, key, '; '.join(problems[:3]), vp.loc())
    else:
        rep.ok(rid, key, '%d keys, every clause once, in source order' % len(got), vp.loc())
