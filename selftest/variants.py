"""Self-test variants: anchored textual edits of a scratch copy of /repo/src.

Each variant: id, props (drivers to run), expect ('fire' | 'silent'), rules (prefixes one of
which must be among the fired rule ids; optional), edits [(path, old, new[, count])].
A variant whose anchor text no longer occurs is reported as *skipped*.
"""
E = 'src/yldprolog/engine.py'
G = 'src/yldprolog/yp_generator.py'
V = 'src/yldprolog/yp_prolog_visitor.py'
C = 'src/yldprolog/compiler.py'

VARIANTS = []


def fire(id, props, rules, *edits):
    VARIANTS.append(dict(id=id, props=props, expect='fire', rules=rules, edits=list(edits)))


def silent(id, props, *edits):
    VARIANTS.append(dict(id=id, props=props, expect='silent', rules=[], edits=list(edits)))


# ---------------------------------------------------------------------------------------------
# C03 / C02: binding cell

fire('bind-straightline-reset', ['C03'], ['C03.U1'],
     (E, """                self._is_bound = True
                try:
                    yield False
                finally:
                    self._is_bound = False""",
         """                self._is_bound = True
                yield False
                self._is_bound = False"""))

fire('bind-except-exception-only', ['C03'], ['C03.U1'],
     (E, """                try:
                    yield False
                finally:
                    self._is_bound = False""",
         """                try:
                    yield False
                except Exception:
                    self._is_bound = False
                    raise
                self._is_bound = False"""))

silent('bind-except-baseexception', ['C03', 'C02'],
       (E, """                try:
                    yield False
                finally:
                    self._is_bound = False""",
           """                try:
                    yield False
                except BaseException:
                    self._is_bound = False
                    raise
                self._is_bound = False"""))

fire('bind-conditional-reset', ['C03'], ['C03.U1'],
     (E, """                finally:
                    self._is_bound = False""",
         """                finally:
                    if not isinstance(self._value, Variable):
                        self._is_bound = False"""))

fire('bind-outside-variable', ['C03', 'C02'], ['C03.U2a', 'C02.B1a'],
     (E, """    if isinstance(arg1, IUnifiable):
        return arg1.unify(arg2)""",
         """    if isinstance(arg1, Variable) and not arg1._is_bound and not isinstance(arg2, Variable):
        arg1._value = arg2
        arg1._is_bound = True
        return YPSuccess()
    if isinstance(arg1, IUnifiable):
        return arg1.unify(arg2)"""))

fire('bind-no-self-check', ['C02'], ['C02.B1d'],
     (E, """            if self._value == self:
                yield False
            else:
                self._is_bound = True
                try:
                    yield False
                finally:
                    self._is_bound = False""",
         """            self._is_bound = True
            try:
                yield False
            finally:
                self._is_bound = False"""))

fire('bind-no-deref', ['C02'], ['C02.B1c'],
     (E, "            self._value = get_value(term)\n", "            self._value = term\n"))

fire('cache-last-query', ['C03'], ['C03.U3'],
     (E, """        yield from self.match_dynamic(self.atom(name), args)""",
         """        self._last_dynamic = self.match_dynamic(self.atom(name), args)
        yield from self._last_dynamic"""))

fire('unify-arrays-close-before-yield', ['C03', 'C02'], ['C03.U4', 'C02.H1'],
     (E, """    try:
        if got_match:
            yield False
    finally:
        for i in range(num_iterators):
            iterators[i].close()""",
         """    for i in range(num_iterators):
        iterators[i].close()
    if got_match:
        yield False"""))

silent('unify-arrays-no-explicit-close', ['C03', 'C02'],
       (E, """    try:
        if got_match:
            yield False
    finally:
        for i in range(num_iterators):
            iterators[i].close()""",
           """    if got_match:
        yield False"""))

fire('match-all-materialised', ['C03'], ['C03.U5'],
     (E, """            for cut in clause.match(args):
                yield False
                if cut:
                    return""",
         """            for cut in list(clause.match(args)):
                yield False
                if cut:
                    return"""))

fire('unify-arrays-silent-loop', ['C03', 'C02'], ['C03.U5', 'C02.H1', 'C02.Y1'],
     (E, """        iterators[i] = iter(unify(array1[i], array2[i]))
        num_iterators += 1
        try:
            next(iterators[i])
        except StopIteration:
            got_match = False
            break""",
         """        matched = False
        for _ in unify(array1[i], array2[i]):
            matched = True
        if not matched:
            got_match = False
            break"""))

silent('variable-unify-yield-from', ['C03', 'C02'],
       (E, """            for l1 in unify(self, term):
                yield False""",
           """            yield from unify(self, term)"""))

# C02: yields, arity guard
fire('unify-arrays-len-one-sided', ['C02'], ['C02.A1'],
     (E, "    if len(array1) != len(array2):\n        return\n", "    if len(array1) > len(array2):\n        return\n"))

fire('unify-arrays-no-len-guard', ['C02'], ['C02.A1'],
     (E, "    if len(array1) != len(array2):\n        return\n    iterators = [None]*len(array1)",
         "    iterators = [None]*min(len(array1), len(array2))"),
     (E, "    for i in range(len(array1)):\n        iterators[i]", "    for i in range(len(iterators)):\n        iterators[i]"))

silent('unify-arrays-len-eq-form', ['C02'],
       (E, "    if len(array1) != len(array2):\n        return\n", "    if not (len(array1) == len(array2)):\n        return\n"))

fire('variable-unify-double-yield', ['C02'], ['C02.Y1'],
     (E, """            if self._value == self:
                yield False
            else:""",
         """            if self._value == self:
                yield False
            if True:"""))

# ---------------------------------------------------------------------------------------------
# C17
fire('evalb-no-close', ['C17'], ['C17.P4'],
     (E, "            if hasattr(query, 'close'):\n                query.close()\n", ""))
fire('evalb-restore-not-in-finally', ['C17'], ['C17.P1'],
     (E, """        finally:
            sys.setrecursionlimit(old_recursionlimit)
            if hasattr(query, 'close'):
                query.close()
        return result""",
         """        finally:
            if hasattr(query, 'close'):
                query.close()
        sys.setrecursionlimit(old_recursionlimit)
        return result"""))
fire('evalb-catch-only-stopiteration', ['C17'], ['C17.P2'],
     (E, "        except RuntimeError:\n            pass\n        except StopIteration:", "        except StopIteration:"))
fire('evalb-insert-front', ['C17'], ['C17.P3'],
     (E, "                result.append(projection_function(x))", "                result.insert(0, projection_function(x))"))
fire('evalb-skip-falsy', ['C17'], ['C17.P3'],
     (E, "                result.append(projection_function(x))", "                if x:\n                    result.append(projection_function(x))"))
silent('evalb-closing-first', ['C17'],
       (E, """            sys.setrecursionlimit(old_recursionlimit)
            if hasattr(query, 'close'):
                query.close()""",
           """            try:
                if hasattr(query, 'close'):
                    query.close()
            finally:
                sys.setrecursionlimit(old_recursionlimit)"""))

# ---------------------------------------------------------------------------------------------
# C07
fire('retract-atom-object-as-name', ['C07'], ['C07.K1'],
     (E, "            name = term.name()\n            args = []\n        else:\n            return\n", "            name = term\n            args = []\n        else:\n            return\n"))
fire('assertz-no-deref', ['C07'], ['C07.D1'],
     (E, "        '''assertz(Term) adds Term to the facts database at the end.'''\n        term = get_value(term)\n",
         "        '''assertz(Term) adds Term to the facts database at the end.'''\n"))
fire('retract-no-else', ['C07'], ['C07.D2'],
     (E, "            name = term.name()\n            args = []\n        else:\n            return\n", "            name = term.name()\n            args = []\n"))
fire('retractall-raises-unknown', ['C07'], ['C07.D3'],
     (E, "        for clause in self._find_clauses(name, len(args)):\n            match = False",
         "        for clause in self._find_predicates(name, len(args)):\n            match = False"))
fire('asserta-atom-appends', ['C07'], ['C07.O1'],
     (E, "            self.assert_fact(term, [], False)", "            self.assert_fact(term, [])"))
fire('assert-fact-swapped', ['C07'], ['C07.O1'],
     (E, "            clauses = clauses + [answer]\n        else:\n            clauses = [answer] + clauses",
         "            clauses = [answer] + clauses\n        else:\n            clauses = clauses + [answer]"))
fire('retractall-returns-none', ['C07'], ['C07.O2'],
     (E, "        self._update_predicate(self.atom(name), len(args), remaining_clauses)\n        return YPSuccess()",
         "        self._update_predicate(self.atom(name), len(args), remaining_clauses)"))
fire('retractall-fails', ['C07'], ['C07.O2'],
     (E, "        self._update_predicate(self.atom(name), len(args), remaining_clauses)\n        return YPSuccess()",
         "        self._update_predicate(self.atom(name), len(args), remaining_clauses)\n        return YPFail()"))
fire('clear-keeps-facts', ['C07'], ['C07.O3'],
     (E, "        self._atom_store = {}\n        self._predicates_store = {}\n        self.ATOM_NIL = self.atom(\"[]\")\n        self._set_default_eval_context()",
         "        self._atom_store = {}\n        self.ATOM_NIL = self.atom(\"[]\")\n        self._set_default_eval_context()"))
fire('clear-stale-nil', ['C07', 'C16'], ['C07.O3', 'C16.A4'],
     (E, "        self._predicates_store = {}\n        self.ATOM_NIL = self.atom(\"[]\")\n        self._set_default_eval_context()\n        self._set_builtin_predicates()\n\n    def atom",
         "        self._predicates_store = {}\n        self._set_default_eval_context()\n        self._set_builtin_predicates()\n\n    def atom"))
silent('asserta-early-return-style', ['C07'],
       (E, """        term = get_value(term)
        if isinstance(term, Functor):
            self.assert_fact(self.atom(term._name), term._args, False)
        elif isinstance(term, Atom):
            self.assert_fact(term, [], False)
        return YPSuccess()""",
           """        t = get_value(term)
        if isinstance(t, Functor):
            self.assert_fact(self.atom(t._name), t._args, append=False)
            return YPSuccess()
        if isinstance(t, Atom):
            self.assert_fact(t, [], append=False)
        return YPSuccess()"""))

# ---------------------------------------------------------------------------------------------
# C09
fire('call-reads-raw-goal', ['C09'], ['C09.D1'],
     (E, "            goal_name = goal_value._name\n            goal_args = goal_value._args", "            goal_name = goal._name\n            goal_args = goal._args"))
fire('call-else-pass', ['C09'], ['C09.D2'],
     (E, "            # TODO: raise exception\n            return\n", "            # TODO: raise exception\n            pass\n"))
fire('once-bare-next', ['C09'], ['C09.S1'],
     (E, "        for r in self.call(goal):\n            yield r\n            return\n", "        q = self.call(goal)\n        yield next(q)\n"))
fire('findall-direct-query', ['C09'], ['C09.M1', 'C09.D1'],
     (E, "        q = self.call(goal)\n        results", "        q = self.query(goal._name, goal._args)\n        results"))
fire('call-extra-args-first', ['C09'], ['C09.M2'],
     (E, "goal_args + list(args)", "list(args) + goal_args"))
fire('findall-raw-template', ['C09'], ['C09.M3'],
     (E, "[ get_value(template) for r in q ]", "[ template for r in q ]"))
fire('findall-reversed', ['C09'], ['C09.M3'],
     (E, "self.makelist([ get_value(template) for r in q ])", "self.makelist(list(reversed([ get_value(template) for r in q ])))"))
fire('neq-yields-when-unifiable', ['C09'], ['C09.M4'],
     (E, "            if cutIf1:\n                doBreak = False\n            if doBreak:\n                break\n        if False:\n                yield False",
         "            if cutIf1:\n                doBreak = False\n            if doBreak:\n                break\n        if cutIf1:\n                yield False"))
fire('neq-never-yields', ['C09'], ['C09.M4'],
     (E, "                if doBreak:\n                    break\n                yield False\n", "                if doBreak:\n                    break\n"))
silent('neq-simple-form', ['C09', 'C03', 'C20'],
       (E, """        doBreak = False
        for _ in [1]:
            X = arg1
            Y = arg2
            cutIf1 = False
            for _ in [1]:
                for l1 in self.query('=',[X,Y]):
                    cutIf1 = True
                    doBreak = True
                    break
                if doBreak:
                    break
                yield False
            if cutIf1:
                doBreak = False
            if doBreak:
                break
        if False:
                yield False""",
           """        for l1 in unify(arg1, arg2):
            return
        yield False"""))
silent('once-next-with-handler', ['C09', 'C03', 'C20'],
       (E, "        for r in self.call(goal):\n            yield r\n            return\n",
           "        q = self.call(goal)\n        try:\n            r = next(q)\n        except StopIteration:\n            return\n        yield r\n"))

# ---------------------------------------------------------------------------------------------
# C14
fire('assert-fact-in-place', ['C14'], ['C14.L1'],
     (E, "            clauses = clauses + [answer]\n", "            clauses.append(answer)\n"))
fire('retract-stale-read', ['C14'], ['C14.L2'],
     (E, """        for clause in self._find_clauses(name, len(args)):
            for cut in clause.match(args):
                current = self._find_clauses(name, len(args))
                if any(c is clause for c in current):""",
         """        current = self._find_clauses(name, len(args))
        for clause in current:
            for cut in clause.match(args):
                if any(c is clause for c in current):"""))
fire('retract-no-presence-test', ['C14'], ['C14.L3'],
     (E, """                if any(c is clause for c in current):
                    self._update_predicate(self.atom(name), len(args),
                                           [c for c in current if c is not clause])
                    yield False""",
         """                self._update_predicate(self.atom(name), len(args),
                                       [c for c in current if c is not clause])
                yield False"""))
silent('match-all-snapshot', ['C14', 'C03'],
       (E, "        for clause in clauses:\n            for cut in clause.match(args):\n                yield False",
           "        for clause in list(clauses):\n            for cut in clause.match(args):\n                yield False"))

# ---------------------------------------------------------------------------------------------
# C08 / C20
fire('query-functions-before-facts', ['C08'], ['C08.Q1'],
     (E, """        yield from self.match_dynamic(self.atom(name), args)
        if name not in self.eval_blacklist:
            function = self.eval_context.get(f'{name}_{len(args)}', self.eval_context.get(f'{name}_n'))
            if function is not None:
                yield from function(*args)""",
         """        if name not in self.eval_blacklist:
            function = self.eval_context.get(f'{name}_{len(args)}', self.eval_context.get(f'{name}_n'))
            if function is not None:
                yield from function(*args)
        yield from self.match_dynamic(self.atom(name), args)"""))
fire('query-variadic-preferred', ['C08'], ['C08.Q3'],
     (E, "self.eval_context.get(f'{name}_{len(args)}', self.eval_context.get(f'{name}_n'))",
         "self.eval_context.get(f'{name}_n', self.eval_context.get(f'{name}_{len(args)}'))"))
fire('register-key-no-underscore', ['C08', 'C20'], ['C08.Q2', 'C20.U1'],
     (E, "            self.eval_context[f'{name}_{arity}'] = func", "            self.eval_context[f'{name}{arity}'] = func"))
fire('combine-new-first', ['C08'], ['C08.Q5'],
     (E, "chain_functions(self.eval_context.get(k), v)", "chain_functions(v, self.eval_context.get(k))"))
fire('chain-reversed', ['C08'], ['C08.Q5'],
     (E, "funcs = [f for f in [func1, func2] if f is not None]", "funcs = [f for f in [func2, func1] if f is not None]"))
fire('exec-in-live-context', ['C08'], ['C08.Q6'],
     (E, "        exec(code, new_context)", "        exec(code, self.eval_context)\n        new_context = self.eval_context"))
fire('query-raises-unknown', ['C08'], ['C08.Q4'],
     (E, "            clauses = self._find_predicates(name.name(), len(args))\n            return self._match_all_clauses(clauses, args)\n        except YPException as e:\n            return YPFail()",
         "            clauses = self._find_predicates(name.name(), len(args))\n            return self._match_all_clauses(clauses, args)\n        except KeyError as e:\n            return YPFail()"))
silent('query-two-step-lookup', ['C08', 'C20', 'C03'],
       (E, "            function = self.eval_context.get(f'{name}_{len(args)}', self.eval_context.get(f'{name}_n'))\n",
           "            function = self.eval_context.get(f'{name}_{len(args)}')\n            if function is None:\n                function = self.eval_context.get(f'{name}_n')\n"))
silent('query-percent-format', ['C08', 'C20'],
       (E, "self.eval_context.get(f'{name}_{len(args)}', self.eval_context.get(f'{name}_n'))",
           "self.eval_context.get('%s_%d' % (name, len(args)), self.eval_context.get(name + '_n'))"))
fire('query-inspects-yield', ['C20'], ['C20.U2'],
     (E, "                for l1 in self.query('=',[X,Y]):\n                    cutIf1 = True", "                for l1 in self.query('=',[X,Y]):\n                    if l1:\n                        continue\n                    cutIf1 = True"))
fire('query-swallows-exceptions', ['C20'], ['C20.U3'],
     (E, "            if function is not None:\n                yield from function(*args)",
         "            if function is not None:\n                try:\n                    yield from function(*args)\n                except Exception:\n                    return"))
fire('query-reversed-args', ['C20'], ['C20.U4'],
     (E, "                yield from function(*args)", "                yield from function(*reversed(args))"))
