"""Self-test variants: anchored textual edits of a scratch copy of /repo/src.

Each variant: id, props (drivers to run), expect ('fire' | 'silent'), rules (prefixes one of
which must be among the fired rule ids; optional), edits [(path, old, new[, count])].
A variant whose anchor text no longer occurs is reported as *skipped*.
"""
E = 'src/yldprolog/engine.py'
G = 'src/yldprolog/yp_generator.py'
V = 'src/yldprolog/yp_prolog_visitor.py'
C = 'src/yldprolog/compiler.py'

VARIANTS = []


def fire(id, props, rules, *edits):
    VARIANTS.append(dict(id=id, props=props, expect='fire', rules=rules, edits=list(edits)))


def silent(id, props, *edits):
    VARIANTS.append(dict(id=id, props=props, expect='silent', rules=[], edits=list(edits)))


# ---------------------------------------------------------------------------------------------
# C03 / C02: binding cell

fire('bind-straightline-reset', ['C03'], ['C03.U1'],
     (E, """                self._is_bound = True
                try:
                    yield False
                finally:
                    self._is_bound = False""",
         """                self._is_bound = True
                yield False
                self._is_bound = False"""))

fire('bind-except-exception-only', ['C03'], ['C03.U1'],
     (E, """                try:
                    yield False
                finally:
                    self._is_bound = False""",
         """                try:
                    yield False
                except Exception:
                    self._is_bound = False
                    raise
                self._is_bound = False"""))

silent('bind-except-baseexception', ['C03', 'C02'],
       (E, """                try:
                    yield False
                finally:
                    self._is_bound = False""",
           """                try:
                    yield False
                except BaseException:
                    self._is_bound = False
                    raise
                self._is_bound = False"""))

fire('bind-conditional-reset', ['C03'], ['C03.U1'],
     (E, """                finally:
                    self._is_bound = False""",
         """                finally:
                    if not isinstance(self._value, Variable):
                        self._is_bound = False"""))

fire('bind-outside-variable', ['C03', 'C02'], ['C03.U2a', 'C02.B1a'],
     (E, """    if isinstance(arg1, IUnifiable):
        return arg1.unify(arg2)""",
         """    if isinstance(arg1, Variable) and not arg1._is_bound and not isinstance(arg2, Variable):
        arg1._value = arg2
        arg1._is_bound = True
        return YPSuccess()
    if isinstance(arg1, IUnifiable):
        return arg1.unify(arg2)"""))

fire('bind-no-self-check', ['C02'], ['C02.B1d'],
     (E, """            if self._value == self:
                yield False
            else:
                self._is_bound = True
                try:
                    yield False
                finally:
                    self._is_bound = False""",
         """            self._is_bound = True
            try:
                yield False
            finally:
                self._is_bound = False"""))

fire('bind-no-deref', ['C02'], ['C02.B1c'],
     (E, "            self._value = get_value(term)\n", "            self._value = term\n"))

fire('cache-last-query', ['C03'], ['C03.U3'],
     (E, """        yield from self.match_dynamic(self.atom(name), args)""",
         """        self._last_dynamic = self.match_dynamic(self.atom(name), args)
        yield from self._last_dynamic"""))

fire('unify-arrays-close-before-yield', ['C03', 'C02'], ['C03.U4', 'C02.H1'],
     (E, """    try:
        if got_match:
            yield False
    finally:
        for i in range(num_iterators):
            iterators[i].close()""",
         """    for i in range(num_iterators):
        iterators[i].close()
    if got_match:
        yield False"""))

silent('unify-arrays-no-explicit-close', ['C03', 'C02'],
       (E, """    try:
        if got_match:
            yield False
    finally:
        for i in range(num_iterators):
            iterators[i].close()""",
           """    if got_match:
        yield False"""))

fire('match-all-materialised', ['C03'], ['C03.U5'],
     (E, """            for cut in clause.match(args):
                yield False
                if cut:
                    return""",
         """            for cut in list(clause.match(args)):
                yield False
                if cut:
                    return"""))

fire('unify-arrays-silent-loop', ['C03', 'C02'], ['C03.U5', 'C02.H1', 'C02.Y1'],
     (E, """        iterators[i] = iter(unify(array1[i], array2[i]))
        num_iterators += 1
        try:
            next(iterators[i])
        except StopIteration:
            got_match = False
            break""",
         """        matched = False
        for _ in unify(array1[i], array2[i]):
            matched = True
        if not matched:
            got_match = False
            break"""))

silent('variable-unify-yield-from', ['C03', 'C02'],
       (E, """            for l1 in unify(self, term):
                yield False""",
           """            yield from unify(self, term)"""))

# C02: yields, arity guard
fire('unify-arrays-len-one-sided', ['C02'], ['C02.A1'],
     (E, "    if len(array1) != len(array2):\n        return\n", "    if len(array1) > len(array2):\n        return\n"))

fire('unify-arrays-no-len-guard', ['C02'], ['C02.A1'],
     (E, "    if len(array1) != len(array2):\n        return\n    iterators = [None]*len(array1)",
         "    iterators = [None]*min(len(array1), len(array2))"),
     (E, "    for i in range(len(array1)):\n        iterators[i]", "    for i in range(len(iterators)):\n        iterators[i]"))

silent('unify-arrays-len-eq-form', ['C02'],
       (E, "    if len(array1) != len(array2):\n        return\n", "    if not (len(array1) == len(array2)):\n        return\n"))

fire('variable-unify-double-yield', ['C02'], ['C02.Y1'],
     (E, """            if self._value == self:
                yield False
            else:""",
         """            if self._value == self:
                yield False
            if True:"""))
