"""Self-test variants: anchored textual edits of a scratch copy of /repo/src.

Each variant: id, props (drivers to run), expect ('fire' | 'silent'), rules (prefixes one of
which must be among the fired rule ids; optional), edits [(path, old, new[, count])].
A variant whose anchor text no longer occurs is reported as *skipped*.
"""
E = 'src/yldprolog/engine.py'
G = 'src/yldprolog/yp_generator.py'
V = 'src/yldprolog/yp_prolog_visitor.py'
C = 'src/yldprolog/compiler.py'

VARIANTS = []


def fire(id, props, rules, *edits, **kw):
    VARIANTS.append(dict(id=id, props=props, expect='fire', rules=rules, edits=list(edits), **kw))


def silent(id, props, *edits):
    VARIANTS.append(dict(id=id, props=props, expect='silent', rules=[], edits=list(edits)))


# ---------------------------------------------------------------------------------------------
# C03 / C02: binding cell

fire('bind-straightline-reset', ['C03'], ['C03.U1'],
     (E, """                self._is_bound = True
                try:
                    yield False
                finally:
                    self._is_bound = False""",
         """                self._is_bound = True
                yield False
                self._is_bound = False"""))

fire('bind-except-exception-only', ['C03'], ['C03.U1'],
     (E, """                try:
                    yield False
                finally:
                    self._is_bound = False""",
         """                try:
                    yield False
                except Exception:
                    self._is_bound = False
                    raise
                self._is_bound = False"""))

silent('bind-except-baseexception', ['C03', 'C02'],
       (E, """                try:
                    yield False
                finally:
                    self._is_bound = False""",
           """                try:
                    yield False
                except BaseException:
                    self._is_bound = False
                    raise
                self._is_bound = False"""))

fire('bind-conditional-reset', ['C03'], ['C03.U1'],
     (E, """                finally:
                    self._is_bound = False""",
         """                finally:
                    if not isinstance(self._value, Variable):
                        self._is_bound = False"""))

# context-manager class instead of try/finally (expanded by the model when it is a plain one)
_CM = """class _Binding(object):
    def __init__(self, variable):
        self._variable = variable
    def __enter__(self):
        self._variable._is_bound = True
        return self._variable
    def __exit__(self, exc_type, exc_value, exc_tb):
        %s
        return False

class Variable(IUnifiable):"""
_CM_USE = ("""                self._is_bound = True
                try:
                    yield False
                finally:
                    self._is_bound = False""", """                with _Binding(self):
                    yield False""")
silent('bind-context-manager-class', ['C02', 'C03', 'C04', 'C13', 'C15', 'C17'],
       (E, "class Variable(IUnifiable):", _CM % "self._variable._is_bound = False"), (E,) + _CM_USE)
fire('bind-context-manager-class-no-reset', ['C03'], ['C03.U1', 'C03.U2'],
     (E, "class Variable(IUnifiable):", _CM % "pass"), (E,) + _CM_USE)
fire('bind-context-manager-class-swallows', ['C03'], ['C03'],
     (E, "class Variable(IUnifiable):", (_CM % "self._variable._is_bound = False").replace("return False", "return True")), (E,) + _CM_USE)

fire('bind-outside-variable', ['C03', 'C02'], ['C03.U2a', 'C02.B1a'],
     (E, """    if isinstance(arg1, IUnifiable):
        return arg1.unify(arg2)""",
         """    if isinstance(arg1, Variable) and not arg1._is_bound and not isinstance(arg2, Variable):
        arg1._value = arg2
        arg1._is_bound = True
        return YPSuccess()
    if isinstance(arg1, IUnifiable):
        return arg1.unify(arg2)"""))

fire('bind-no-self-check', ['C02'], ['C02.B1d'],
     (E, """            if self._value == self:
                yield False
            else:
                self._is_bound = True
                try:
                    yield False
                finally:
                    self._is_bound = False""",
         """            self._is_bound = True
            try:
                yield False
            finally:
                self._is_bound = False"""))

fire('bind-no-deref', ['C02'], ['C02.B1c'],
     (E, "            self._value = get_value(term)\n", "            self._value = term\n"))

fire('cache-last-query', ['C03'], ['C03.U3'],
     (E, """        yield from self.match_dynamic(self.atom(name), args)""",
         """        self._last_dynamic = self.match_dynamic(self.atom(name), args)
        yield from self._last_dynamic"""))

fire('unify-arrays-close-before-yield', ['C03', 'C02'], ['C03.U4', 'C02.H1'],
     (E, """    try:
        if got_match:
            yield False
    finally:
        for i in range(num_iterators):
            iterators[i].close()""",
         """    for i in range(num_iterators):
        iterators[i].close()
    if got_match:
        yield False"""))

silent('unify-arrays-no-explicit-close', ['C03', 'C02'],
       (E, """    try:
        if got_match:
            yield False
    finally:
        for i in range(num_iterators):
            iterators[i].close()""",
           """    if got_match:
        yield False"""))

fire('match-all-materialised', ['C03'], ['C03.U5'],
     (E, """            for cut in clause.match(args):
                yield False
                if cut:
                    return""",
         """            for cut in list(clause.match(args)):
                yield False
                if cut:
                    return"""))

fire('unify-arrays-silent-loop', ['C03', 'C02'], ['C03.U5', 'C02.H1', 'C02.Y1'],
     (E, """        iterators[i] = iter(unify(array1[i], array2[i]))
        num_iterators += 1
        try:
            next(iterators[i])
        except StopIteration:
            got_match = False
            break""",
         """        matched = False
        for _ in unify(array1[i], array2[i]):
            matched = True
        if not matched:
            got_match = False
            break"""))

silent('variable-unify-yield-from', ['C03', 'C02'],
       (E, """            for l1 in unify(self, term):
                yield False""",
           """            yield from unify(self, term)"""))

# C02: yields, arity guard
fire('unify-arrays-len-one-sided', ['C02'], ['C02.A1'],
     (E, "    if len(array1) != len(array2):\n        return\n", "    if len(array1) > len(array2):\n        return\n"))

fire('unify-arrays-no-len-guard', ['C02'], ['C02.A1'],
     (E, "    if len(array1) != len(array2):\n        return\n    iterators = [None]*len(array1)",
         "    iterators = [None]*min(len(array1), len(array2))"),
     (E, "    for i in range(len(array1)):\n        iterators[i]", "    for i in range(len(iterators)):\n        iterators[i]"))

silent('unify-arrays-len-eq-form', ['C02'],
       (E, "    if len(array1) != len(array2):\n        return\n", "    if not (len(array1) == len(array2)):\n        return\n"))

fire('variable-unify-double-yield', ['C02'], ['C02.Y1'],
     (E, """            if self._value == self:
                yield False
            else:""",
         """            if self._value == self:
                yield False
            if True:"""))

# ---------------------------------------------------------------------------------------------
# C17
fire('evalb-no-close', ['C17'], ['C17.P4'],
     (E, "            if hasattr(query, 'close'):\n                query.close()\n", ""))
fire('evalb-restore-not-in-finally', ['C17'], ['C17.P1'],
     (E, """        finally:
            sys.setrecursionlimit(old_recursionlimit)
            if hasattr(query, 'close'):
                query.close()
        return result""",
         """        finally:
            if hasattr(query, 'close'):
                query.close()
        sys.setrecursionlimit(old_recursionlimit)
        return result"""))
fire('evalb-catch-only-stopiteration', ['C17'], ['C17.P2'],
     (E, "        except RuntimeError:\n            pass\n        except StopIteration:", "        except StopIteration:"))
fire('evalb-insert-front', ['C17'], ['C17.P3'],
     (E, "                result.append(projection_function(x))", "                result.insert(0, projection_function(x))"))
fire('evalb-skip-falsy', ['C17'], ['C17.P3'],
     (E, "                result.append(projection_function(x))", "                if x:\n                    result.append(projection_function(x))"))
silent('evalb-closing-first', ['C17'],
       (E, """            sys.setrecursionlimit(old_recursionlimit)
            if hasattr(query, 'close'):
                query.close()""",
           """            try:
                if hasattr(query, 'close'):
                    query.close()
            finally:
                sys.setrecursionlimit(old_recursionlimit)"""))

# ---------------------------------------------------------------------------------------------
# C07
fire('retract-atom-object-as-name', ['C07'], ['C07.K1'],
     (E, "            name = term.name()\n            args = []\n        else:\n            return\n", "            name = term\n            args = []\n        else:\n            return\n"))
fire('assertz-no-deref', ['C07'], ['C07.D1'],
     (E, "        '''assertz(Term) adds Term to the facts database at the end.'''\n        term = get_value(term)\n",
         "        '''assertz(Term) adds Term to the facts database at the end.'''\n"))
fire('retract-no-else', ['C07'], ['C07.D2'],
     (E, "            name = term.name()\n            args = []\n        else:\n            return\n", "            name = term.name()\n            args = []\n"))
fire('retractall-raises-unknown', ['C07'], ['C07.D3'],
     (E, "        for clause in self._find_clauses(name, len(args)):\n            match = False",
         "        for clause in self._find_predicates(name, len(args)):\n            match = False"))
fire('asserta-atom-appends', ['C07'], ['C07.O1'],
     (E, "            self.assert_fact(term, [], False)", "            self.assert_fact(term, [])"))
fire('assert-fact-swapped', ['C07'], ['C07.O1'],
     (E, "            clauses = clauses + [answer]\n        else:\n            clauses = [answer] + clauses",
         "            clauses = [answer] + clauses\n        else:\n            clauses = clauses + [answer]"))
fire('retractall-returns-none', ['C07'], ['C07.O2'],
     (E, "        self._update_predicate(self.atom(name), len(args), remaining_clauses)\n        return YPSuccess()",
         "        self._update_predicate(self.atom(name), len(args), remaining_clauses)"))
fire('retractall-fails', ['C07'], ['C07.O2'],
     (E, "        self._update_predicate(self.atom(name), len(args), remaining_clauses)\n        return YPSuccess()",
         "        self._update_predicate(self.atom(name), len(args), remaining_clauses)\n        return YPFail()"))
fire('clear-keeps-facts', ['C07'], ['C07.O3'],
     (E, "        self._atom_store = {}\n        self._predicates_store = {}\n        self.ATOM_NIL = self.atom(\"[]\")\n        self._set_default_eval_context()",
         "        self._atom_store = {}\n        self.ATOM_NIL = self.atom(\"[]\")\n        self._set_default_eval_context()"))
fire('clear-stale-nil', ['C07', 'C16'], ['C07.O3', 'C16.A4'],
     (E, "        self._predicates_store = {}\n        self.ATOM_NIL = self.atom(\"[]\")\n        self._set_default_eval_context()\n        self._set_builtin_predicates()\n\n    def atom",
         "        self._predicates_store = {}\n        self._set_default_eval_context()\n        self._set_builtin_predicates()\n\n    def atom"))
silent('asserta-early-return-style', ['C07'],
       (E, """        term = get_value(term)
        if isinstance(term, Functor):
            self.assert_fact(self.atom(term._name), term._args, False)
        elif isinstance(term, Atom):
            self.assert_fact(term, [], False)
        return YPSuccess()""",
           """        t = get_value(term)
        if isinstance(t, Functor):
            self.assert_fact(self.atom(t._name), t._args, append=False)
            return YPSuccess()
        if isinstance(t, Atom):
            self.assert_fact(t, [], append=False)
        return YPSuccess()"""))

# ---------------------------------------------------------------------------------------------
# C09
fire('call-reads-raw-goal', ['C09'], ['C09.D1'],
     (E, "            goal_name = goal_value._name\n            goal_args = goal_value._args", "            goal_name = goal._name\n            goal_args = goal._args"))
fire('call-else-pass', ['C09'], ['C09.D2'],
     (E, "            # TODO: raise exception\n            return\n", "            # TODO: raise exception\n            pass\n"))
fire('once-bare-next', ['C09'], ['C09.S1'],
     (E, "        for r in self.call(goal):\n            yield r\n            return\n", "        q = self.call(goal)\n        yield next(q)\n"))
fire('findall-direct-query', ['C09'], ['C09.M1', 'C09.D1'],
     (E, "        q = self.call(goal)\n        results", "        q = self.query(goal._name, goal._args)\n        results"))
fire('call-extra-args-first', ['C09'], ['C09.M2'],
     (E, "goal_args + list(args)", "list(args) + goal_args"))
fire('findall-raw-template', ['C09'], ['C09.M3'],
     (E, "[ get_value(template) for r in q ]", "[ template for r in q ]"))
fire('findall-reversed', ['C09'], ['C09.M3'],
     (E, "self.makelist([ get_value(template) for r in q ])", "self.makelist(list(reversed([ get_value(template) for r in q ])))"))
fire('neq-yields-when-unifiable', ['C09'], ['C09.M4'],
     (E, "            if cutIf1:\n                doBreak = False\n            if doBreak:\n                break\n        if False:\n                yield False",
         "            if cutIf1:\n                doBreak = False\n            if doBreak:\n                break\n        if cutIf1:\n                yield False"))
fire('neq-never-yields', ['C09'], ['C09.M4'],
     (E, "                if doBreak:\n                    break\n                yield False\n", "                if doBreak:\n                    break\n"))
silent('neq-simple-form', ['C09', 'C03', 'C20'],
       (E, """        doBreak = False
        for _ in [1]:
            X = arg1
            Y = arg2
            cutIf1 = False
            for _ in [1]:
                for l1 in self.query('=',[X,Y]):
                    cutIf1 = True
                    doBreak = True
                    break
                if doBreak:
                    break
                yield False
            if cutIf1:
                doBreak = False
            if doBreak:
                break
        if False:
                yield False""",
           """        for l1 in unify(arg1, arg2):
            return
        yield False"""))
silent('once-next-with-handler', ['C09', 'C03', 'C20'],
       (E, "        for r in self.call(goal):\n            yield r\n            return\n",
           "        q = self.call(goal)\n        try:\n            r = next(q)\n        except StopIteration:\n            return\n        yield r\n"))

# ---------------------------------------------------------------------------------------------
# C14
fire('assert-fact-in-place', ['C14'], ['C14.L1'],
     (E, "            clauses = clauses + [answer]\n", "            clauses.append(answer)\n"))
fire('retract-stale-read', ['C14'], ['C14.L2'],
     (E, """        for clause in self._find_clauses(name, len(args)):
            for cut in clause.match(args):
                current = self._find_clauses(name, len(args))
                if any(c is clause for c in current):""",
         """        current = self._find_clauses(name, len(args))
        for clause in current:
            for cut in clause.match(args):
                if any(c is clause for c in current):"""))
fire('retract-no-presence-test', ['C14'], ['C14.L3'],
     (E, """                if any(c is clause for c in current):
                    self._update_predicate(self.atom(name), len(args),
                                           [c for c in current if c is not clause])
                    yield False""",
         """                self._update_predicate(self.atom(name), len(args),
                                       [c for c in current if c is not clause])
                yield False"""))
silent('match-all-snapshot', ['C14', 'C03'],
       (E, "        for clause in clauses:\n            for cut in clause.match(args):\n                yield False",
           "        for clause in list(clauses):\n            for cut in clause.match(args):\n                yield False"))

# ---------------------------------------------------------------------------------------------
# C08 / C20
fire('query-functions-before-facts', ['C08'], ['C08.Q1'],
     (E, """        yield from self.match_dynamic(self.atom(name), args)
        if name not in self.eval_blacklist:
            function = self.eval_context.get(f'{name}_{len(args)}', self.eval_context.get(f'{name}_n'))
            if function is not None:
                yield from function(*args)""",
         """        if name not in self.eval_blacklist:
            function = self.eval_context.get(f'{name}_{len(args)}', self.eval_context.get(f'{name}_n'))
            if function is not None:
                yield from function(*args)
        yield from self.match_dynamic(self.atom(name), args)"""))
fire('query-variadic-preferred', ['C08'], ['C08.Q3'],
     (E, "self.eval_context.get(f'{name}_{len(args)}', self.eval_context.get(f'{name}_n'))",
         "self.eval_context.get(f'{name}_n', self.eval_context.get(f'{name}_{len(args)}'))"))
fire('register-key-no-underscore', ['C08', 'C20'], ['C08.Q2', 'C20.U1'],
     (E, "            self.eval_context[f'{name}_{arity}'] = func", "            self.eval_context[f'{name}{arity}'] = func"))
fire('combine-new-first', ['C08'], ['C08.Q5'],
     (E, "chain_functions(self.eval_context.get(k), v)", "chain_functions(v, self.eval_context.get(k))"))
fire('chain-reversed', ['C08'], ['C08.Q5'],
     (E, "funcs = [f for f in [func1, func2] if f is not None]", "funcs = [f for f in [func2, func1] if f is not None]"))
fire('exec-in-live-context', ['C08'], ['C08.Q6'],
     (E, "        exec(code, new_context)", "        exec(code, self.eval_context)\n        new_context = self.eval_context"))
fire('query-raises-unknown', ['C08'], ['C08.Q4'],
     (E, "            clauses = self._find_predicates(name.name(), len(args))\n            return self._match_all_clauses(clauses, args)\n        except YPException as e:\n            return YPFail()",
         "            clauses = self._find_predicates(name.name(), len(args))\n            return self._match_all_clauses(clauses, args)\n        except KeyError as e:\n            return YPFail()"))
silent('query-two-step-lookup', ['C08', 'C20', 'C03'],
       (E, "            function = self.eval_context.get(f'{name}_{len(args)}', self.eval_context.get(f'{name}_n'))\n",
           "            function = self.eval_context.get(f'{name}_{len(args)}')\n            if function is None:\n                function = self.eval_context.get(f'{name}_n')\n"))
silent('query-percent-format', ['C08', 'C20'],
       (E, "self.eval_context.get(f'{name}_{len(args)}', self.eval_context.get(f'{name}_n'))",
           "self.eval_context.get('%s_%d' % (name, len(args)), self.eval_context.get(name + '_n'))"))
fire('query-inspects-yield', ['C20'], ['C20.U2'],
     (E, "                for l1 in self.query('=',[X,Y]):\n                    cutIf1 = True", "                for l1 in self.query('=',[X,Y]):\n                    if l1:\n                        continue\n                    cutIf1 = True"))
fire('query-swallows-exceptions', ['C20'], ['C20.U3'],
     (E, "            if function is not None:\n                yield from function(*args)",
         "            if function is not None:\n                try:\n                    yield from function(*args)\n                except Exception:\n                    return"))
fire('query-reversed-args', ['C20'], ['C20.U4'],
     (E, "                yield from function(*args)", "                yield from function(*reversed(args))"))

# =============================================================================================
# compiler side
# ---------------------------------------------------------------------------------------------
# C01
fire('anon-counter-not-incremented', ['C01'], ['C01.V1'],
     (V, "            variable = AnonymousVariableTerm(self.anonymousVariableCounter)\n            self.anonymousVariableCounter += 1\n",
         "            variable = AnonymousVariableTerm(self.anonymousVariableCounter)\n"))
fire('listpair-variables-drop-tail', ['C01'], ['C01.V2'],
     (V, "        return self.head.variables + self.tail.variables\n", "        return self.head.variables\n"))
fire('functor-variables-first-arg-only', ['C01'], ['C01.V2'],
     (V, "        return functools.reduce(lambda x,y: x + y, [ v.variables for v in self.args ], [])", "        return []"))
fire('declarations-after-body', ['C01'], ['C01.V3'],
     (G, "        return head_var_arguments + free_var_declaration_code_head + free_var_declaration_code_body + arg_list_unification_code",
         "        return head_var_arguments + free_var_declaration_code_head + arg_list_unification_code + free_var_declaration_code_body"))
fire('missing-pop-bound-vars', ['C01'], ['C01.V3', 'C01.V6'],
     (G, "        self.pop_bound_vars()\n        self.pop_bound_vars()\n        self.pop_bound_vars()\n", "        self.pop_bound_vars()\n        self.pop_bound_vars()\n"))
fire('alias-test-inverted', ['C01'], ['C01.H1'],
     (G, "            if self.head_args_by_pos[i-1] == None:\n                argvar", "            if self.head_args_by_pos[i-1] != None:\n                argvar"))
fire('conj-sequence-instead-of-nesting', ['C01', 'C06'], ['C01.N1', 'C06.R'],
     (G, "                    coderhs = self.compile_body(body.rhs)\n                    return self.compile_predicate(body.lhs, coderhs)",
         "                    coderhs = self.compile_body(body.rhs)\n                    return self.compile_predicate(body.lhs, []) + coderhs"))
silent('conj-introduce-local', ['C01', 'C05', 'C06'],
       (G, "                    coderhs = self.compile_body(body.rhs)\n                    return self.compile_predicate(body.lhs, coderhs)",
           "                    goal = body.lhs\n                    rest = body.rhs\n                    return self.compile_predicate(goal, self.compile_body(rest))"))

# ---------------------------------------------------------------------------------------------
# C05
fire('cut-conj-no-return', ['C05'], ['C05.R'],
     (G, "                code_a = self.compile_body(body.rhs)\n                return code_a + [ YPCodeYieldBreak() ]", "                code_a = self.compile_body(body.rhs)\n                return code_a"))
fire('cut-last-no-return', ['C05'], ['C05.R'],
     (G, "            return [ YPCodeYieldTrue(), YPCodeYieldBreak() ]", "            return [ YPCodeYieldTrue() ]"))
fire('yieldbreak-as-break', ['C05'], ['C05.B1'],
     (G, "    def generate_yield_break(self,yb):\n        return self.l(\"return\")", "    def generate_yield_break(self,yb):\n        return self.l(\"break\")"))
fire('each-clause-own-function', ['C05'], ['C05.F1'],
     (G, """        for func,clauses in program.items():
            self._debug(f'Compiling clauses for {func}')
            body = itertools.chain.from_iterable( self.compile_function_body(c) for c in clauses )
            funcs.append(self.compile_function(func,body))""",
         """        for func,clauses in program.items():
            self._debug(f'Compiling clauses for {func}')
            for c in clauses:
                funcs.append(self.compile_function(func,self.compile_function_body(c)))"""))
fire('match-all-clauses-cut-on-truthy-query', ['C05', 'C20'], ['C05.F2', 'C20.U2'],
     (E, "            if function is not None:\n                yield from function(*args)",
         "            if function is not None:\n                for r in function(*args):\n                    yield r\n                    if r:\n                        return"))

# ---------------------------------------------------------------------------------------------
# C06
fire('disj-distribution-drops-continuation', ['C06'], ['C06.R'],
     (G, """                        DisjunctionPredicate(
                            ConjunctionPredicate(body.lhs.lhs,body.rhs),
                            ConjunctionPredicate(body.lhs.rhs,body.rhs)
                        )""",
         """                        DisjunctionPredicate(
                            ConjunctionPredicate(body.lhs.lhs,body.rhs),
                            body.lhs.rhs
                        )"""))
fire('negation-inverted', ['C06'], ['C06.R'],
     (G, """                            IfThenPredicate(body.lhs.pred,FailPredicate()),
                            TruePredicate()""",
         """                            IfThenPredicate(body.lhs.pred,TruePredicate()),
                            FailPredicate()"""))
fire('ifthen-without-else-succeeds', ['C06'], ['C06.R'],
     (G, """                                IfThenPredicate(body.lhs.condition,body.lhs.action),
                                FailPredicate()""",
         """                                IfThenPredicate(body.lhs.condition,body.lhs.action),
                                TruePredicate()"""))
fire('ite-without-block', ['C06'], ['C06.R'],
     (G, "                return [ YPCodeBreakableBlock(cut_if_label,code) ]", "                return code"))
fire('foreach-no-break-propagation', ['C06'], ['C06.B1'],
     (G, "        break_code = self.generate_break_code()\n        return self.lines(s, code, break_code)", "        return self.lines(s, code)"))
fire('block-resets-flag-unconditionally', ['C06'], ['C06.B1'],
     (G, """        lines.append(self.l("if %s:" % bb.label))
        self.indent()
        #      doBreak = False
        lines.append(self.l("doBreak = False"))
        self.dedent()""",
         """        lines.append(self.l("doBreak = False"))"""))
fire('compile-body-missing-fail-case', ['C06'], ['C06.X1'],
     (G, """            elif isinstance(body.lhs,FailPredicate):
                self._debug("------ case: fail , _ ")
                return []
""", ""))
fire('visitor-swaps-comma-semicolon', ['C06'], ['C06.G2'],
     (V, """            if ctx.op.text == ',':
                lhs = self.visitPredicateexpression(ctx.predicateexpression(0))
                rhs = self.visitPredicateexpression(ctx.predicateexpression(1))
                return ConjunctionPredicate(lhs,rhs)""",
         """            if ctx.op.text == ',':
                lhs = self.visitPredicateexpression(ctx.predicateexpression(0))
                rhs = self.visitPredicateexpression(ctx.predicateexpression(1))
                return DisjunctionPredicate(lhs,rhs)"""))
fire('visitor-ifthen-operands-swapped', ['C06'], ['C06.G2'],
     (V, """            if ctx.op.text == '->':
                lhs = self.visitPredicateexpression(ctx.predicateexpression(0))
                rhs = self.visitPredicateexpression(ctx.predicateexpression(1))
                return IfThenPredicate(lhs,rhs)""",
         """            if ctx.op.text == '->':
                lhs = self.visitPredicateexpression(ctx.predicateexpression(1))
                rhs = self.visitPredicateexpression(ctx.predicateexpression(0))
                return IfThenPredicate(lhs,rhs)"""))
fire('grammar-semicolon-before-arrow', ['C06'], ['C06.G1'],
     ('src/yldprolog/prolog.g4', """    | <assoc=right> predicateexpression op='->' predicateexpression
    | <assoc=right> predicateexpression op=';' predicateexpression""",
      """    | <assoc=right> predicateexpression op=';' predicateexpression
    | <assoc=right> predicateexpression op='->' predicateexpression"""))
silent('emitter-rename-flag', ['C05', 'C06', 'C01', 'C11', 'C12'],
       (G, "doBreak", "brkFlag", 7))
silent('foreach-fstring', ['C05', 'C06', 'C11', 'C12', 'C03', 'C20'],
       (G, "        s = self.l(\"for %s in %s:\" % (loop_var,expression))", "        s = self.l(f'for {loop_var} in {expression}:')"))
silent('compile-body-reorder-disjoint-cases', ['C05', 'C06', 'C01'],
       (G, """        # :- fail
        elif isinstance(body,FailPredicate):
            self._debug("------ case: [A  =>  A, true]  fail => fail, true")
            return self.compile_body(ConjunctionPredicate(body, TruePredicate()))
        # :- true
        elif isinstance(body,TruePredicate):
            # TODO: ? return, return True, yield False (depending on state)
            self._debug("------ case: true")
            return [ YPCodeYieldFalse() ]""",
           """        # :- true
        elif isinstance(body,TruePredicate):
            self._debug("------ case: true")
            return [ YPCodeYieldFalse() ]
        # :- fail
        elif isinstance(body,FailPredicate):
            self._debug("------ case: [A  =>  A, true]  fail => fail, true")
            return self.compile_body(ConjunctionPredicate(body, TruePredicate()))"""))

# ---------------------------------------------------------------------------------------------
# C11
fire('function-empty-body-no-pass', ['C11', 'C01'], ['C11.T1', 'C01.T1'],
     (G, "        code = self.generate_code_list(func.body) or self.l(\"pass\")", "        code = self.generate_code_list(func.body)"))
fire('numerals-verbatim', ['C11'], ['C11.L1'],
     (G, "        return str(int(expr.val))", "        return expr.val"))
fire('no-dead-yield', ['C11'], ['C11.T1'],
     (G, "        return self.lines(s, unset_break_code, wrap_code, code, false_yield_code)", "        return self.lines(s, unset_break_code, wrap_code, code)"))
fire('no-nesting-check', ['C11'], ['C11.N1'],
     (G, "    def generate_foreach(self,loop):\n        self._check_nesting()\n", "    def generate_foreach(self,loop):\n"))
fire('nesting-limit-too-high', ['C11'], ['C11.N1'],
     (G, "_MAX_NESTED_BLOCKS = 20", "_MAX_NESTED_BLOCKS = 40"))
fire('def-name-dash', ['C11', 'C08', 'C20'], ['C11.F1k', 'C08.Q2', 'C20.U1', 'C11.T1'],
     (G, "def {func.name}_{len(func.args)}(", "def {func.name}__{len(func.args)}("))
fire('foreach-pass-as-list', ['C11', 'C01', 'C06'], ['C11.T1', 'C01.T1', 'C06.B1'],
     (G, "            code = self.l(\"pass\")\n", "            code = [ self.l(\"pass\") ]\n"))

# ---------------------------------------------------------------------------------------------
# C12
fire('variables-unprefixed', ['C12', 'C11'], ['C12.T1', 'C12.T2', 'C11.L2'],
     (V, "            variable = VariableTerm('V_' + varname)", "            variable = VariableTerm(varname)"))
fire('head-names-unchecked', ['C12', 'C11'], ['C12.T1', 'C11.L2'],
     (V, """                if not re.fullmatch(r'[A-Za-z_][A-Za-z0-9_]*', name):
                    raise CompilerError(getattr(self.context, 'current_source_file', ''), ctx.clauseordirective(i),
                        f"{name!r} cannot be used as the predicate name of a clause head")
""", ""))
fire('head-names-weak-regex', ['C12', 'C11'], ['C12.T1', 'C11.L2'],
     (V, "re.fullmatch(r'[A-Za-z_][A-Za-z0-9_]*', name)", "re.match(r'[A-Za-z_][A-Za-z0-9_]*', name)"))
fire('expr-quoted-by-hand', ['C12', 'C16'], ['C12.T1', 'C16.A6'],
     (G, "    def generate_expr(self,expr):\n        return repr(expr.expr)", "    def generate_expr(self,expr):\n        return \"'%s'\" % expr.expr"))
fire('builtins-not-emptied', ['C12', 'C04'], ['C12.T5', 'C04.I6'],
     (E, "            '__builtins__': {},\n", ""))
fire('callee-not-in-context', ['C12', 'C16'], ['C12.T3', 'C16.A5'],
     (G, "        return [ YPCodeForeach(YPCodeCall('unify',[YPCodeVar(var),self.compile_expression(val)]), code) ]",
         "        return [ YPCodeForeach(YPCodeCall('unify_terms',[YPCodeVar(var),self.compile_expression(val)]), code) ]"))
# ---------------------------------------------------------------------------------------------
# C16
fire('dot-constant-disagrees', ['C16'], ['C16.A1'],
     (E, "        self.ATOM_DOT = \".\"", "        self.ATOM_DOT = \"|\""))
fire('nil-name-disagrees', ['C16'], ['C16.A1'],
     (E, "        if self._name == '[]':\n            return []", "        if self._name == 'nil':\n            return []"))
fire('makelist-not-reversed', ['C16'], ['C16.A1'],
     (E, "reversed(l), self.ATOM_NIL)", "l, self.ATOM_NIL)"))
fire('atoms-compared-by-identity', ['C16'], ['C16.A1'],
     (E, "            if self._name == arg._name:\n                return YPSuccess()\n            else:\n                return YPFail()\n        elif isinstance(arg, Variable):\n            return arg.unify(self)\n        else:\n            return YPFail()\n\n\nclass Variable",
         "            if self is arg:\n                return YPSuccess()\n            else:\n                return YPFail()\n        elif isinstance(arg, Variable):\n            return arg.unify(self)\n        else:\n            return YPFail()\n\n\nclass Variable"))
fire('compile-expression-drops-listpair', ['C16', 'C06'], ['C16.A3', 'C06.X1'],
     (G, "        if isinstance(expr,ListPairTerm):\n            return YPCodeCall('listpair',[ self.compile_expression(expr.head), self.compile_expression(expr.tail) ])\n", ""))

# ---------------------------------------------------------------------------------------------
# C18
fire('free-variables-set-order', ['C18'], ['C18.N1'],
     (G, "        return list(dict.fromkeys([ v for v in variables if v not in self.bound_vars[-1] ]))",
         "        return list(set([ v for v in variables if v not in self.bound_vars[-1] ]))"))
fire('label-counter-module-global', ['C18', 'C04'], ['C18.N3', 'C04.I1'],
     (G, "    def get_cut_if_label(self):\n        self.cut_if_counter += 1\n        return \"cutIf\"+str(self.cut_if_counter)",
         "    def get_cut_if_label(self):\n        global _cut_if_counter\n        _cut_if_counter += 1\n        return \"cutIf\"+str(_cut_if_counter)"),
     (G, "_output_header = '''#", "_cut_if_counter = 0\n\n_output_header = '''#"))
fire('label-from-id', ['C18'], ['C18.N2'],
     (G, "        return \"cutIf\"+str(self.cut_if_counter)", "        return \"cutIf\"+str(id(self) % 1000 + self.cut_if_counter)"))
fire('anon-counter-on-class', ['C18'], ['C18.N4', 'C18.N3'],
     (V, "        self.anonymousVariableCounter = 0\n", ""),
     (V, "class YPPrologVisitor(prologVisitor):\n", "class YPPrologVisitor(prologVisitor):\n    anonymousVariableCounter = 0\n"),
     (V, "            self.anonymousVariableCounter += 1", "            YPPrologVisitor.anonymousVariableCounter += 1"))
fire('compiler-object-cached', ['C18'], ['C18.N4', 'C18.N3'],
     (C, "    compiler = YPPrologCompiler(ctx)\n", "    global _compiler\n    if _compiler is None:\n        _compiler = YPPrologCompiler(ctx)\n    compiler = _compiler\n"),
     (C, "def _compile_prolog_from_stream(inp, ctx):", "_compiler = None\n\ndef _compile_prolog_from_stream(inp, ctx):"))
silent('free-variables-sorted-set', ['C18', 'C01'],
       (G, "        return list(dict.fromkeys([ v for v in variables if v not in self.bound_vars[-1] ]))",
           "        return sorted(set([ v for v in variables if v not in self.bound_vars[-1] ]))"))

# ---------------------------------------------------------------------------------------------
# C19 / C10
fire('main-own-pipeline', ['C19'], ['C19.B1'],
     (C, "                    pythoncode = _compile_prolog_from_stream(inf, ctx)\n",
         "                    pythoncode = YPPythonCodeGenerator(ctx).generate(YPPrologCompiler(ctx).compile_program(YPPrologVisitor(ctx).visit(prologParser(CommonTokenStream(prologLexer(inf))).program())))\n"))
fire('main-strips-output', ['C19'], ['C19.B1'],
     (C, "                    outf.write(pythoncode)", "                    outf.write(pythoncode.strip())"))
fire('debug-single-line-prefix', ['C19', 'C12'], ['C19.B2', 'C12.T6'],
     (G, "            self.context.outf.write(''.join('# ' + line + '\\n' for line in msg.splitlines() or ['']))", "            self.context.outf.write('# ' + msg + '\\n')"))
fire('debug-flag-changes-code', ['C19'], ['C19.B3'],
     (G, "        unset_break_code = self.l(\"doBreak = False\")", "        unset_break_code = self.l(\"doBreak = False\")\n        if self.context.debug_generator:\n            unset_break_code = unset_break_code + '\\n' + self.l(\"pass\")"))
fire('stdin-default-encoding', ['C19'], ['C19.B4'],
     (C, "StdinStream(encoding='utf8')", "StdinStream()"))
fire('tracer-alters-result', ['C19'], ['C19.B5'],
     (V, "                result = attr(*args, **kwargs)\n", "                result = attr(*args, **kwargs) or TruePredicate()\n"))
fire('listener-raises-valueerror', ['C19', 'C10'], ['C19.B6', 'C10.G5'],
     (C, "        raise SyntaxCompilerError(self.filename, line, column, msg)", "        raise ValueError('%s:%d:%d:%s' % (self.filename, line, column, msg))"))
fire('no-lexer-listener', ['C10'], ['C10.G1'],
     (C, "    lexer.removeErrorListeners()\n    lexer.addErrorListener(listener)\n", ""))
fire('listener-only-records', ['C10'], ['C10.G1'],
     (C, "        raise SyntaxCompilerError(self.filename, line, column, msg)", "        self.errors = getattr(self, 'errors', []) + [(line, column, msg)]"))
fire('no-eof-check', ['C10'], ['C10.G3'],
     (C, """    if stream.LA(1) != Token.EOF:
        # the grammar's start rule does not end in EOF: the parser stops where it cannot continue
        token = stream.LT(1)
        raise SyntaxCompilerError(filename, token.line, token.column, f"unexpected input '{token.text}'")
""", ""))
fire('eof-check-inverted', ['C10'], ['C10.G3'],
     (C, "    if stream.LA(1) != Token.EOF:", "    if stream.LA(1) == Token.EOF:"))
fire('main-swallows-errors', ['C10', 'C19'], ['C10.G5', 'C19.B6'],
     (C, "                    raise click.ClickException(str(e)) from e", "                    click.echo(str(e), err=True)"))
silent('listener-installed-via-helper-order', ['C10', 'C19'],
       (C, "    lexer.removeErrorListeners()\n    lexer.addErrorListener(listener)\n    stream = CommonTokenStream(lexer)\n    parser = prologParser(stream)\n    parser.removeErrorListeners()\n    parser.addErrorListener(listener)\n",
           "    stream = CommonTokenStream(lexer)\n    parser = prologParser(stream)\n    for recognizer in (lexer, parser):\n        recognizer.removeErrorListeners()\n    lexer.addErrorListener(listener)\n    parser.addErrorListener(listener)\n"))

# ---------------------------------------------------------------------------------------------
# C04 / C13 / C15
fire('predicates-store-on-class', ['C04'], ['C04.I2', 'C04.I3'],
     (E, "        self._atom_store = {}\n        self._predicates_store = {}\n        self.ATOM_NIL = self.atom(\"[]\")\n        self.ATOM_DOT",
         "        self._atom_store = {}\n        self.ATOM_NIL = self.atom(\"[]\")\n        self.ATOM_DOT"),
     (E, "class YP(object):\n    \"\"\"The YieldProlog engine.\"\"\"\n", "class YP(object):\n    \"\"\"The YieldProlog engine.\"\"\"\n    _predicates_store = {}\n"))
fire('init-mutable-default', ['C04'], ['C04.I3', 'C04.I4'],
     (E, "    def __init__(self):\n        self._atom_store = {}\n        self._predicates_store = {}", "    def __init__(self, facts={}):\n        self._atom_store = {}\n        self._predicates_store = facts"))
fire('atom-lru-cache', ['C04'], ['C04.I2'],
     (E, "    def atom(self, name, module=None):", "    @functools.lru_cache(maxsize=None)\n    def atom(self, name, module=None):"))
fire('module-level-current-engine', ['C04'], ['C04.I1'],
     (E, "        yield from self.match_dynamic(self.atom(name), args)", "        global _current_engine\n        _current_engine = self\n        yield from self.match_dynamic(self.atom(name), args)"),
     (E, "logger = logging.getLogger(__name__)", "logger = logging.getLogger(__name__)\n_current_engine = None"))
fire('query-counts-calls', ['C04'], ['C04.I7'],
     (E, "        yield from self.match_dynamic(self.atom(name), args)", "        self._stats = getattr(self, '_stats', {})\n        self._stats[name] = self._stats.get(name, 0) + 1\n        yield from self.match_dynamic(self.atom(name), args)"))
fire('match-without-copy', ['C13'], ['C13.S2'],
     (E, "        varmap = {}\n        return unify_arrays(args, [copy_term(v, varmap) for v in self.values])", "        return unify_arrays(args, self.values)"))
fire('store-get-value-only', ['C13'], ['C13.S1'],
     (E, "        varmap = {}\n        self.values = [copy_term(v, varmap) for v in values]", "        self.values = [get_value(v) for v in values]"))
fire('store-varmap-per-argument', ['C13'], ['C13.S1'],
     (E, "        varmap = {}\n        self.values = [copy_term(v, varmap) for v in values]", "        self.values = [copy_term(v, {}) for v in values]"))
fire('copy-term-no-deref', ['C13'], ['C13.S3'],
     (E, "    term = get_value(term)\n    if isinstance(term, Variable):\n        if term not in varmap:", "    if isinstance(term, Variable):\n        if term not in varmap:"))
fire('copy-term-shares-functor-args', ['C13'], ['C13.S1', 'C13.S2'],
     (E, "        return Functor(term._name, [copy_term(a, varmap) for a in term._args])", "        return Functor(term._name, list(term._args))"))
fire('get-value-shallow', ['C15'], ['C15.V1'],
     (E, "        if not self._is_bound:\n            return self\n        return get_value(self._value)", "        if not self._is_bound:\n            return self\n        if isinstance(self._value, Variable):\n            return self._value.get_value()\n        return self._value"))
fire('functor-get-value-identity', ['C15'], ['C15.V1'],
     (E, "        valargs = [ get_value(a) for a in self._args ]\n        return Functor(self._name, valargs)", "        return self"))
fire('functor-to-python-raw-args', ['C15'], ['C15.V3'],
     (E, "            args = [to_python(v) for v in self._args]\n            return (self._name, args)", "            return (self._name, self._args)"))
silent('get-value-explicit-branches', ['C15', 'C13'],
       (E, "        if not self._is_bound:\n            return self\n        return get_value(self._value)",
           "        if self._is_bound:\n            return get_value(self._value)\n        else:\n            return self"))

# a correct dead-code elimination: nothing is emitted after a return
silent('cut-dead-code-elimination', ['C05', 'C06', 'C01'],
       (G, "                code_a = self.compile_body(body.rhs)\n                return code_a + [ YPCodeYieldBreak() ]",
           "                code_a = self.compile_body(body.rhs)\n                if code_a and isinstance(code_a[-1], YPCodeYieldBreak):\n                    return code_a\n                return code_a + [ YPCodeYieldBreak() ]"))


# a non-compositional "optimisation": compile_body inspects the code its recursive call returned and wrongly
# concludes that a loop whose body ends in a return always returns (needs the depth-3 bounded check)
fire('cut-dead-code-elimination-too-eager', ['C05'], ['C05.R2'],
     (G, "                code_a = self.compile_body(body.rhs)\n                return code_a + [ YPCodeYieldBreak() ]",
         "                code_a = self.compile_body(body.rhs)\n                last = code_a[-1] if code_a else None\n                while isinstance(last, YPCodeForeach) and last.loop_code:\n                    last = last.loop_code[-1]\n                if isinstance(last, YPCodeYieldBreak):\n                    return code_a\n                return code_a + [ YPCodeYieldBreak() ]"),
     deep=True)

# ---------------------------------------------------------------------------------------------
# atom interning decided by evaluating atom() (round 4)

fire('atom-not-interned', ['C16'], ['C16.A1'],
     (E, """        self._atom_store.setdefault(name, Atom(name))
        return self._atom_store[name]""",
         """        self._atom_store[name] = Atom(name)
        return self._atom_store[name]"""))

silent('atom-lookup-then-create', ['C04', 'C07', 'C17', 'C20'],
       (E, """        self._atom_store.setdefault(name, Atom(name))
        return self._atom_store[name]""",
           """        try:
            return self._atom_store[name]
        except KeyError:
            atom = self._atom_store[name] = Atom(name)
            return atom"""))

silent('atom-membership-then-create', ['C04', 'C07', 'C17', 'C20'],
       (E, """        self._atom_store.setdefault(name, Atom(name))
        return self._atom_store[name]""",
           """        if name not in self._atom_store:
            self._atom_store[name] = Atom(name)
        return self._atom_store[name]"""))

# ---------------------------------------------------------------------------------------------
# = is the general unifier (round 4)

silent('eq-derefs-first', ['C09'],
       (E, """    for l in unify(arg1,arg2):
        yield False""",
           """    left = get_value(arg1)
    right = arg2
    for l in unify(left, right):
        yield False"""))

fire('eq-left-method', ['C09'], ['C09.M4e'],
     (E, """    for l in unify(arg1,arg2):
        yield False""",
         """    for l in get_value(arg1).unify(arg2):
        yield False"""))

# ---------------------------------------------------------------------------------------------
# round 7: constructors leave their arguments, asserts without effects, main() compiles every source

fire('makelist-reverses-argument', ['C16'], ['C16.A15'],
     (E, """        r = functools.reduce(lambda x, y: self.listpair(y, x), reversed(l), self.ATOM_NIL)
        return r""",
         """        l.reverse()
        r = self.ATOM_NIL
        for item in l:
            r = self.listpair(item, r)
        return r"""))

silent('makelist-reverses-copy', ['C16', 'C01'],
       (E, """        r = functools.reduce(lambda x, y: self.listpair(y, x), reversed(l), self.ATOM_NIL)
        return r""",
           """        items = list(l)
        items.reverse()
        r = self.ATOM_NIL
        for item in items:
            r = self.listpair(item, r)
        return r"""))

fire('assert-pops-scope', ['C18'], ['C18.N8'],
     (G, """        self.pop_bound_vars()
        self.pop_bound_vars()
        self.pop_bound_vars()""",
         """        assert self.pop_bound_vars() is None
        self.pop_bound_vars()
        self.pop_bound_vars()"""))

silent('assert-inspects-scope', ['C18', 'C01'],
       (G, """        self.pop_bound_vars()
        self.pop_bound_vars()
        self.pop_bound_vars()""",
           """        assert len(self.bound_vars) >= 3 and self.filter_free_variables([]) == []
        self.pop_bound_vars()
        self.pop_bound_vars()
        self.pop_bound_vars()"""))

fire('main-skips-when-output-exists', ['C19'], ['C19.B8'],
     (C, """    _set_debug_options(ctx)

    with _open_output_file(outfile) as outf:""",
         """    _set_debug_options(ctx)

    import os
    if outfile != '-' and os.path.exists(outfile) and os.path.getsize(outfile) > 0:
        return
    with _open_output_file(outfile) as outf:"""))

silent('main-returns-without-sources', ['C19', 'C10'],
       (C, """    _set_debug_options(ctx)

    with _open_output_file(outfile) as outf:""",
           """    _set_debug_options(ctx)

    if not source:
        return
    with _open_output_file(outfile) as outf:"""))

fire('main-suppresses-oserror', ['C19'], ['C19.B8'],
     (C, """            with _open_input_file(s) as inf:
                try:""",
         """            with contextlib.suppress(OSError), _open_input_file(s) as inf:
                try:"""))

# ---------------------------------------------------------------------------------------------
# round 8: where the process runs; objects created at import time

fire('header-relative-to-cwd', ['C18'], ['C18.N2'],
     (G, """            filename = ' '.join(str(self.context.current_source_file).splitlines())""",
         """            import os
            filename = ' '.join(os.path.relpath(str(self.context.current_source_file)).splitlines())"""))

fire('label-counter-on-module-object', ['C18'], ['C18.N6'],
     (G, """    def get_cut_if_label(self):
        self.cut_if_counter += 1
        return "cutIf"+str(self.cut_if_counter)""",
         """    def get_cut_if_label(self):
        return "cutIf"+str(_labels.next())"""),
     (G, """import itertools
from .yp_prolog_visitor import *""",
         """import itertools
from .yp_prolog_visitor import *

class _Labels:
    def __init__(self):
        self.n = 0
    def next(self):
        self.n += 1
        return self.n

_labels = _Labels()"""))

silent('label-counter-on-own-object', ['C18', 'C01'],
       (G, """    def get_cut_if_label(self):
        self.cut_if_counter += 1
        return "cutIf"+str(self.cut_if_counter)""",
           """    def get_cut_if_label(self):
        self.cut_if_counter = self.cut_if_counter + 1
        return "cutIf%d" % self.cut_if_counter"""))
